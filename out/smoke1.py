import json, random, sys, time
sys.path.insert(0, "/verif")
from harness import gen, drive, tlc
def main():
    rng = random.Random(int(sys.argv[1]) if len(sys.argv) > 1 else 1)
    n = int(sys.argv[2]) if len(sys.argv) > 2 else 32
    specs = []
    for i in range(n):
        m = gen.rand_model(rng)
        specs.append({"cid": i, "mdl": m, "groups": ["solve", "template"], "tol": [1, 4096], "reltol": [0, 1],
                      "plan": [{"op": "template"}, {"op": "solve", "jit": False}, {"op": "solve", "jit": True},
                               {"op": "rel-solve", "a": 2, "b": 3, "what": "jit-equals-eager"}]})
    t0 = time.time()
    cases = drive.run_cases(specs)
    print("drive", time.time() - t0)
    json.dump(cases, open("/verif/out/smoke1.json", "w"))
    for c in cases:
        for e in c["events"]:
            if e["e"] == "error":
                print("ERR", c["cid"], e["op"], e["cls"], e["msg"][:200])
    t0 = time.time()
    v, st = tlc.validate_traces("TracePipeline", cases)
    print("tlc", time.time() - t0, st)
    from collections import Counter
    print(Counter((x["v"][0], x["v"][1] if len(x["v"]) > 1 else "") for x in v.values()))
    for x in v.values():
        if x["v"][0] == "FAIL": print(x["cid"], x["v"][1], x["v"][2][:300])
    print("exact", sum(1 for x in v.values() if x["exact"]))
if __name__ == '__main__':
    main()
