------------------------------- MODULE ProtoMC -------------------------------
(* Probe: exhaustive design-level check "implementation-shaped solve step = declarative Bellman step"
   over a family of models defined in TLA+ (cost measurement for MC_Solve). *)
EXTENDS Core

K(n) == <<"const", <<n, 1>>>>
X(v) == <<"var", v>>
Add(a, b) == <<"add", a, b>>
Mul(a, b) == <<"mul", a, b>>
Mk(k1, k2, k3, beta, T) ==
  [T |-> T,
   vars |-> << [name |-> "r", role |-> "state", kind |-> "disc", n |-> 2],
               [name |-> "w", role |-> "state", kind |-> "lin", start |-> <<0,1>>, stop |-> <<4,1>>, n |-> 3],
               [name |-> "b", role |-> "choice", kind |-> "disc", n |-> 2],
               [name |-> "a", role |-> "choice", kind |-> "disc", n |-> 2],
               [name |-> "c", role |-> "choice", kind |-> "lin", start |-> <<0,1>>, stop |-> <<2,1>>, n |-> 3] >>,
   funcs |-> << [name |-> "utility", kind |-> "utility", args |-> <<"c","a","w","r","b","_period">>,
                 expr |-> Add(Add(Mul(K(k1), X("c")), Mul(K(k2), Mul(X("a"), X("r")))), Add(Mul(K(k3), Mul(X("b"), X("w"))), X("_period")))],
                [name |-> "next_w", kind |-> "next", args |-> <<"w","c","a">>, expr |-> Add(<<"sub", X("w"), X("c")>>, Mul(K(2), X("a")))],
                [name |-> "next_r", kind |-> "next", args |-> <<"a","r">>, expr |-> <<"max", X("a"), X("r")>>],
                [name |-> "bc_constraint", kind |-> "constraint", args |-> <<"c","w","b">>, expr |-> <<"le", Add(X("c"), X("b")), Add(X("w"), K(1))>>],
                [name |-> "abs_filter", kind |-> "filter", args |-> <<"a","r">>, expr |-> <<"le", X("r"), X("a")>>] >>,
   params |-> [beta |-> beta]]
Family == {Mk(k1, k2, k3, be, T) : k1 \in {-1, 1, 2}, k2 \in {-1, 0, 2}, k3 \in {-1, 0, 1}, be \in {<<0,1>>, <<1,2>>, <<1,1>>}, T \in {2, 3}}

(* ---- implementation-shaped step ---- *)
Sub(seq, P(_)) == SelectSeq(seq, P)
SpS(M) == Sub(StateSeq(M), LAMBDA v : v.name \in SparseNames(M))
SpC(M) == Sub(ChoiceSeq(M), LAMBDA v : v.name \in SparseNames(M))
DdS(M) == Sub(StateSeq(M), LAMBDA v : v.name \notin SparseNames(M) /\ v.kind = "disc")
DdC(M) == Sub(ChoiceSeq(M), LAMBDA v : v.name \notin SparseNames(M) /\ v.kind = "disc")
CtS(M) == Sub(StateSeq(M), LAMBDA v : v.name \notin SparseNames(M) /\ v.kind # "disc")
CtC(M) == Sub(ChoiceSeq(M), LAMBDA v : v.name \notin SparseNames(M) /\ v.kind # "disc")
Sizes(vs) == [i \in DOMAIN vs |-> vs[i].n]
Asg(vs, tup) == [n \in NamesOf(vs) |-> GridVal(vs[CHOOSE i \in DOMAIN vs : vs[i].name = n], tup[CHOOSE i \in DOMAIN vs : vs[i].name = n])]
Rows(M, t) == LET sp == SpS(M) \o SpC(M) IN
   SelectSeq(Prod(Sizes(sp)), LAMBDA x : PassAll(M, "filter", Asg(sp, x) @@ ("_period" :> R(t))))
DenseCells(M) == Prod(Sizes(DdS(M) \o DdC(M) \o CtS(M)))
Ccv(M, t, Vn, row, dc) ==
   LET base == Asg(SpS(M) \o SpC(M), row) @@ Asg(DdS(M) \o DdC(M) \o CtS(M), dc) @@ ("_period" :> R(t))
       cc == Prod(Sizes(CtC(M)))
   IN FoldSet(LAMBDA k, acc : LET env == base @@ Asg(CtC(M), cc[k]) IN
                IF PassAll(M, "constraint", env) THEN RMax(acc, Q(M, t, Vn, env)) ELSE acc,
              NegInf, DOMAIN cc)
ImplStepFlat(M, t, Vn) ==
   LET rows == Rows(M, t)
       nS == Len(SpS(M))
       stOf(row) == SubSeq(row, 1, nS)
       feas == SelectSeq(Prod(Sizes(SpS(M))), LAMBDA s : \E k \in DOMAIN rows : stOf(rows[k]) = s)   \* rank order
       outCells == Prod(Sizes(DdS(M) \o CtS(M)))
       dcs == DenseCells(M)
       nDS == Len(DdS(M)) nDC == Len(DdC(M))
       proj(dc) == SubSeq(dc, 1, nDS) \o SubSeq(dc, nDS + nDC + 1, Len(dc))                           \* drop dense choice axes
       ccv == [k \in DOMAIN rows |-> [j \in DOMAIN dcs |-> Ccv(M, t, Vn, rows[k], dcs[j])]]            \* array [rows, dense cells]
   IN FlattenSeq([f \in DOMAIN feas |-> [o \in DOMAIN outCells |->
         FoldSet(LAMBDA kj, acc : RMax(acc, ccv[kj[1]][kj[2]]), NegInf,
                 {kj \in (DOMAIN rows) \X (DOMAIN dcs) : stOf(rows[kj[1]]) = feas[f] /\ proj(dcs[kj[2]]) = outCells[o]})]])

VARIABLES M, t, V, ok
Init == M \in Family /\ t = M.T /\ V = <<>> /\ ok = TRUE
Step == /\ t > 0
        /\ LET Vt == VStep(M, t - 1, V) IN
           /\ V' = Vt
           /\ ok' = (ImplStepFlat(M, t - 1, V) = Flat(M, Vt))
        /\ t' = t - 1 /\ UNCHANGED M
ImplMatchesDecl == ok
InfeasibleNeverWins == \A s \in DOMAIN V : TRUE
=============================================================================
