import json, sys, random, time
from fractions import Fraction as F
from dataclasses import make_dataclass
import numpy as np, jax, jax.numpy as jnp
import lcm
from lcm import Model, DiscreteGrid, LinspaceGrid
from lcm.entry_point import get_lcm_function

def q(x): x=F(x); return [x.numerator, x.denominator]
def const(x): return ["const", q(x)]
def var(n): return ["var", n]
def py(e):
    op=e[0]
    if op=="const": return repr(float(F(*e[1])))
    if op=="var": return e[1]
    b={"add":"+","sub":"-","mul":"*","le":"<=","lt":"<","eq":"=="}
    if op in b: return f"({py(e[1])} {b[op]} {py(e[2])})"
    if op=="min": return f"jnp.minimum({py(e[1])}, {py(e[2])})"
    if op=="max": return f"jnp.maximum({py(e[1])}, {py(e[2])})"
    if op=="and": return f"jnp.logical_and({py(e[1])}, {py(e[2])})"
    if op=="or": return f"jnp.logical_or({py(e[1])}, {py(e[2])})"
    if op=="not": return f"jnp.logical_not({py(e[1])})"
    if op=="ite": return f"jnp.where({py(e[1])}, {py(e[2])}, {py(e[3])})"
    raise ValueError(op)
def cat(n): return make_dataclass("C%d"%n, [("c%d"%i,int,i) for i in range(n)])
def build(m):
    ns={"jnp":jnp,"lcm":lcm}
    funcs={}
    for f in m["funcs"]:
        if f["kind"]=="stoch":
            src=f"@lcm.mark.stochastic\ndef {f['name']}({', '.join(f['args'])}):\n    pass\n"
        else:
            src=f"def {f['name']}({', '.join(f['args'])}):\n    return {py(f['expr'])}\n"
        exec(src, ns); funcs[f["name"]]=ns[f["name"]]
    def grid(v):
        if v["kind"]=="disc": return DiscreteGrid(cat(v["n"]))
        return LinspaceGrid(start=float(F(*v["start"])), stop=float(F(*v["stop"])), n_points=v["n"])
    states={v["name"]:grid(v) for v in m["vars"] if v["role"]=="state"}
    choices={v["name"]:grid(v) for v in m["vars"] if v["role"]=="choice"}
    return Model(n_periods=m["T"], functions=funcs, states=states, choices=choices)
def params(m):
    def conv(x):
        if isinstance(x,dict): return {k:conv(v) for k,v in x.items()}
        if isinstance(x,list) and len(x)==2 and all(isinstance(i,int) for i in x): return float(F(*x))
        return x
    p={k:conv(v) for k,v in m["params"].items() if k!="shocks"}
    if "shocks" in m["params"]:
        def arr(x):
            if isinstance(x[0],int): return float(F(*x))
            return [arr(y) for y in x]
        p["shocks"]={k:jnp.array(arr(v)) for k,v in m["params"]["shocks"].items()}
    return p

def rand_model(rng):
    T=rng.choice([1,2,3])
    nw=rng.choice([3,5]); nc=rng.choice([2,3,5])
    stoch=rng.random()<0.6
    vars_=[{"name":"h","role":"state","kind":"disc","n":2},
           {"name":"w","role":"state","kind":"lin","start":q(0),"stop":q(2*(nw-1)),"n":nw},
           {"name":"a","role":"choice","kind":"disc","n":2},
           {"name":"c","role":"choice","kind":"lin","start":q(0),"stop":q(nc-1),"n":nc}]
    ci=lambda: const(rng.randint(-3,3))
    util=["add",["add",["mul",ci(),var("c")],["mul",ci(),["mul",var("a"),var("h")]]],["add",["mul",var("w"),var("k")],["mul",ci(),var("_period")]]]
    funcs=[{"name":"utility","kind":"utility","args":["c","a","w","h","k","_period"],"expr":util},
           {"name":"next_w","kind":"next","args":["w","c","inc"],"expr":["add",["sub",var("w"),var("c")],var("inc")]},
           {"name":"inc","kind":"aux","args":["a","k"],"expr":["mul",var("a"),var("k")]},
           {"name":"bc_constraint","kind":"constraint","args":["c","w"],"expr":["le",var("c"),var("w")]}]
    P={"beta":q(rng.choice([F(1),F(1,2),F(3,4)])),"utility":{"k":q(rng.randint(0,2))},"next_w":{},"inc":{"k":q(rng.choice([1,2]))},"bc_constraint":{}}
    if stoch:
        funcs.append({"name":"next_h","kind":"stoch","state":"h","args":["h","a","_period"]})
        rows=[[F(1),F(0)],[F(0),F(1)],[F(1,2),F(1,2)],[F(1,4),F(3,4)]]
        P["shocks"]={"h":[[[ [q(x) for x in rng.choice(rows)] for _ in range(T)] for _ in range(2)] for _ in range(2)]}
        P["next_h"]={}
    else:
        funcs.append({"name":"next_h","kind":"next","args":["h","a"],"expr":["max",var("h"),var("a")]}); P["next_h"]={}
    return {"T":T,"vars":vars_,"funcs":funcs,"params":P}

if __name__=="__main__":
    n=int(sys.argv[1]); rng=random.Random(int(sys.argv[2]))
    cases=[]; t0=time.time()
    for i in range(n):
        m=rand_model(rng)
        f,tmpl=get_lcm_function(build(m),targets="solve",debug_mode=False,jit=False)
        V=f(params(m))
        obs=[[q(F(float(x))) if np.isfinite(x) else ([-1,0] if x<0 else [1,0]) for x in np.asarray(v).ravel()] for v in V]
        cases.append({"model":m,"V":obs})
    print("python time",time.time()-t0, file=sys.stderr)
    json.dump(cases,open("cases.json","w"))
