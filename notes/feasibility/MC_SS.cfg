CONSTANTS SShape <- MCS CShape <- MCC Mode = "mc"
INIT Init
NEXT Next
INVARIANT ImplMatchesDecl
CHECK_DEADLOCK FALSE
