import json, sys, random, time
from fractions import Fraction as F
import numpy as np, jax, jax.numpy as jnp
from gen import q, const, var, py, build, params
from lcm.entry_point import get_lcm_function

def rand_model(rng):
    T=rng.choice([1,2,3])
    nw=rng.choice([3,5]); nc=rng.choice([2,3,5])
    has_r=rng.random()<0.6; has_h=rng.random()<0.6; has_b=rng.random()<0.5; has_d=rng.random()<0.3
    stoch=has_h and rng.random()<0.6
    per_filter=has_r and rng.random()<0.3
    vars_=[]
    if has_h: vars_.append({"name":"h","role":"state","kind":"disc","n":2})
    vars_.append({"name":"w","role":"state","kind":"lin","start":q(0),"stop":q(2*(nw-1)),"n":nw})
    if has_r: vars_.append({"name":"r","role":"state","kind":"disc","n":rng.choice([2,3])})
    if has_b: vars_.append({"name":"b","role":"choice","kind":"disc","n":rng.choice([2,3])})
    vars_.append({"name":"a","role":"choice","kind":"disc","n":2})
    vars_.append({"name":"c","role":"choice","kind":"lin","start":q(0),"stop":q(nc-1),"n":nc})
    if has_d: vars_.append({"name":"d","role":"choice","kind":"lin","start":q(0),"stop":q(1),"n":3})
    rng.shuffle(vars_)
    ci=lambda: const(rng.randint(-3,3))
    terms=[["mul",ci(),var("c")],["mul",var("w"),var("k")],["mul",ci(),var("_period")],["mul",ci(),var("a")]]
    uargs=["c","w","k","_period","a"]
    if has_h: terms.append(["mul",ci(),["mul",var("a"),var("h")]]); uargs.append("h")
    if has_r: terms.append(["mul",ci(),var("r")]); uargs.append("r")
    if has_b: terms.append(["mul",ci(),["mul",var("b"),var("c")]]); uargs.append("b")
    if has_d: terms.append(["mul",ci(),["mul",var("d"),var("w")]]); uargs.append("d")
    util=terms[0]
    for t_ in terms[1:]: util=["add",util,t_]
    rng.shuffle(uargs)
    nwargs=["w","c","inc"]+(["d"] if has_d else [])
    nwe=["add",["sub",var("w"),var("c")],var("inc")]
    if has_d: nwe=["add",nwe,var("d")]
    funcs=[{"name":"utility","kind":"utility","args":uargs,"expr":util},
           {"name":"next_w","kind":"next","args":nwargs,"expr":nwe},
           {"name":"inc","kind":"aux","args":["a","k"],"expr":["mul",var("a"),var("k")]},
           {"name":"bc_constraint","kind":"constraint","args":["c","w"],"expr":["le",var("c"),var("w")]}]
    P={"beta":q(rng.choice([F(1),F(1,2),F(3,4)])),"utility":{"k":q(rng.randint(0,2))},"next_w":{},"inc":{"k":q(rng.choice([1,2]))},"bc_constraint":{}}
    if has_r:
        funcs.append({"name":"next_r","kind":"next","args":["a","r"],"expr":["max",var("a"),var("r")]}); P["next_r"]={}
        if per_filter:
            funcs.append({"name":"abs_filter","kind":"filter","args":["a","r","_period"],"expr":["or",["le",var("r"),var("a")],["le",const(1),var("_period")]]})
        else:
            funcs.append({"name":"abs_filter","kind":"filter","args":["a","r"],"expr":["le",["min",var("r"),const(1)],var("a")]})
        P["abs_filter"]={}
    if has_h:
        if stoch:
            funcs.append({"name":"next_h","kind":"stoch","state":"h","args":["h","a","_period"]})
            rows=[[F(1),F(0)],[F(0),F(1)],[F(1,2),F(1,2)],[F(1,4),F(3,4)]]
            P["shocks"]={"h":[[[ [q(x) for x in rng.choice(rows)] for _ in range(T)] for _ in range(2)] for _ in range(2)]}
        else:
            funcs.append({"name":"next_h","kind":"next","args":["h","a"],"expr":["max",var("h"),var("a")]})
        P["next_h"]={}
    rng.shuffle(funcs)
    return {"T":T,"vars":vars_,"funcs":funcs,"params":P}

def fq(x):
    x=float(x)
    if np.isfinite(x): return q(F(x))
    return [-1,0] if x<0 else ([1,0] if x>0 else [0,0])
if __name__=="__main__":
    n=int(sys.argv[1]); rng=random.Random(int(sys.argv[2])); out=sys.argv[3]
    cases=[]; t0=time.time()
    for i in range(n):
        m=rand_model(rng)
        mod=build(m)
        jit=rng.random()<0.5
        f,tmpl=get_lcm_function(mod,targets="solve",debug_mode=False,jit=jit)
        p=params(m)
        V=f(p)
        obs=[[fq(x) for x in np.asarray(v).ravel()] for v in V]
        case={"model":m,"V":obs}
        g,_=get_lcm_function(mod,targets="simulate",debug_mode=False)
        na=4
        init={}
        for v in m["vars"]:
            if v["role"]!="state": continue
            if v["kind"]=="disc": init[v["name"]]=jnp.array([rng.randrange(v["n"]) for _ in range(na)])
            else:
                hi=float(F(*v["stop"]))
                init[v["name"]]=jnp.array([rng.choice([0.0,hi,rng.randrange(0,int(hi*4)+1)/4.0]) for _ in range(na)])
        try:
            df=g(p,initial_states=init,vf_arr_list=V,seed=rng.randrange(1000))
            sn=[v["name"] for v in m["vars"] if v["role"]=="state"]; cn=[v["name"] for v in m["vars"] if v["role"]=="choice"]
            sim=[]
            for t in range(m["T"]):
                rows=[]
                for i_ in range(na):
                    r=df.loc[(t,i_)]
                    rows.append({"state":{k:fq(r[k]) for k in sn},"choice":{k:fq(r[k]) for k in cn},"value":fq(r["value"])})
                sim.append(rows)
            case["sim"]=sim
        except Exception as e:
            print("SIM-ERR", type(e).__name__, str(e)[:100], [ (v["name"],v["role"]) for v in m["vars"]], [f["name"] for f in m["funcs"]], file=sys.stderr)
            continue
        cases.append(case)
    print("python time",time.time()-t0, "cases", len(cases), file=sys.stderr)
    json.dump(cases,open(out,"w"))
