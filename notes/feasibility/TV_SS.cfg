CONSTANTS SShape <- D1 CShape <- D1 Mode = "tv"
INIT Init
NEXT Next
INVARIANT Report
INVARIANT ImplMatchesDecl
CHECK_DEADLOCK FALSE
