------------------------------- MODULE Core -------------------------------
EXTENDS Integers, Sequences, FiniteSets, TLC, Json, IOUtils, XRat, FiniteSetsExt, SequencesExt


(* ---------------------------------------------------------------- model *)
VarRec(M, name) == M.vars[CHOOSE i \in DOMAIN M.vars : M.vars[i].name = name]
FuncRec(M, name) == M.funcs[CHOOSE i \in DOMAIN M.funcs : M.funcs[i].name = name]
FuncNames(M) == {M.funcs[i].name : i \in DOMAIN M.funcs}
VarNames(M) == {M.vars[i].name : i \in DOMAIN M.vars}
StateSeq(M) == SelectSeq(M.vars, LAMBDA v : v.role = "state")
ChoiceSeq(M) == SelectSeq(M.vars, LAMBDA v : v.role = "choice")
NamesOf(vs) == {vs[i].name : i \in DOMAIN vs}
FuncsOfKind(M, k) == {M.funcs[i].name : i \in {j \in DOMAIN M.funcs : M.funcs[j].kind = k}}

GridVal(v, i) == IF v.kind = "disc" THEN R(i)
                 ELSE RAdd(v.start, RMul(R(i), RDiv(RSub(v.stop, v.start), R(v.n - 1))))

(* ---------------------------------------------------------------- expressions *)
RECURSIVE Eval(_, _)
Eval(e, loc) ==
  CASE e[1] = "const" -> e[2]
    [] e[1] = "var"   -> loc[e[2]]
    [] e[1] = "add"   -> RAdd(Eval(e[2], loc), Eval(e[3], loc))
    [] e[1] = "sub"   -> RSub(Eval(e[2], loc), Eval(e[3], loc))
    [] e[1] = "mul"   -> RMul(Eval(e[2], loc), Eval(e[3], loc))
    [] e[1] = "min"   -> RMin(Eval(e[2], loc), Eval(e[3], loc))
    [] e[1] = "max"   -> RMax(Eval(e[2], loc), Eval(e[3], loc))
    [] e[1] = "le"    -> RLe(Eval(e[2], loc), Eval(e[3], loc))
    [] e[1] = "lt"    -> RLt(Eval(e[2], loc), Eval(e[3], loc))
    [] e[1] = "eq"    -> Eval(e[2], loc) = Eval(e[3], loc)
    [] e[1] = "and"   -> Eval(e[2], loc) /\ Eval(e[3], loc)
    [] e[1] = "or"    -> Eval(e[2], loc) \/ Eval(e[3], loc)
    [] e[1] = "not"   -> ~Eval(e[2], loc)
    [] e[1] = "ite"   -> IF Eval(e[2], loc) THEN Eval(e[3], loc) ELSE Eval(e[4], loc)

RECURSIVE CallF(_, _, _)
ArgVal(M, fname, a, env) ==
   IF a \in DOMAIN env THEN env[a]
   ELSE IF a \in FuncNames(M) THEN CallF(M, a, env)
   ELSE M.params[fname][a]
CallF(M, fname, env) ==
   LET f == FuncRec(M, fname)
       loc == [a \in ToSet(f.args) |-> ArgVal(M, fname, a, env)]
   IN Eval(f.expr, loc)

(* ---------------------------------------------------------------- spaces *)
Combos(vs) == [NamesOf(vs) -> Nat] \* placeholder, refined below
IdxSet(vs) == {c \in [NamesOf(vs) -> 0..Max({vs[i].n : i \in DOMAIN vs} \cup {1}) - 1] :
                  \A i \in DOMAIN vs : c[vs[i].name] < vs[i].n}
EnvOf(M, s, c, t) ==
   [n \in NamesOf(StateSeq(M)) |-> GridVal(VarRec(M, n), s[n])] @@
   [n \in NamesOf(ChoiceSeq(M)) |-> GridVal(VarRec(M, n), c[n])] @@ ("_period" :> R(t))
PassAll(M, kind, env) == \A f \in FuncsOfKind(M, kind) : CallF(M, f, env)

(* ---------------------------------------------------------------- value function as a function *)
LinCoord(v, x) == RDiv(RSub(x, v.start), RDiv(RSub(v.stop, v.start), R(v.n - 1)))
Clip(i, lo, hi) == IF i < lo THEN lo ELSE IF i > hi THEN hi ELSE i
\* Vt : [IdxSet(states) -> xrat];  y : [state names -> xrat]
VFun(M, Vt, y) ==
   LET ss == StateSeq(M)
       cont == {ss[i].name : i \in {j \in DOMAIN ss : ss[j].kind # "disc"}}
       lo == [n \in cont |-> Clip(RFloor(LinCoord(VarRec(M, n), y[n])), 0, VarRec(M, n).n - 2)]
       wu == [n \in cont |-> RSub(LinCoord(VarRec(M, n), y[n]), R(lo[n]))]
       corner(b) == [n \in NamesOf(ss) |-> IF n \in cont THEN lo[n] + b[n] ELSE y[n][1]]
       wgt(b) == FoldSet(LAMBDA n, acc : RMul(acc, IF b[n] = 1 THEN wu[n] ELSE RSub(R(1), wu[n])), R(1), cont)
   IN FoldSet(LAMBDA b, acc : RAdd(acc, RMul(wgt(b), Vt[corner(b)])), R(0), [cont -> {0, 1}])

(* stochastic expectation *)
StochNames(M) == {M.funcs[i].state : i \in {j \in DOMAIN M.funcs : M.funcs[j].kind = "stoch"}}
StochFunc(M, st) == M.funcs[CHOOSE i \in DOMAIN M.funcs : M.funcs[i].kind = "stoch" /\ M.funcs[i].state = st]
RECURSIVE Dig(_, _)
Dig(arr, idxs) == IF idxs = <<>> THEN arr ELSE Dig(arr[Head(idxs) + 1], Tail(idxs))
Row(M, st, env) == LET f == StochFunc(M, st)
                   IN Dig(M.params["shocks"][st], [i \in DOMAIN f.args |-> env[f.args[i]][1]])
NextStates(M, env) ==  \* deterministic next states
   [n \in NamesOf(StateSeq(M)) \ StochNames(M) |-> CallF(M, "next_" \o n, env)]
Q(M, t, Vn, env) ==
   LET u == CallF(M, "utility", env) IN
   IF t = M.T - 1 THEN u ELSE
   LET det == NextStates(M, env)
       sn == StochNames(M)
       rows == [st \in sn |-> Row(M, st, env)]
       labs == {l \in [sn -> 0..Max({VarRec(M, st).n : st \in sn} \cup {1}) - 1] : \A st \in sn : l[st] < VarRec(M, st).n}
       w(l) == FoldSet(LAMBDA st, acc : RMul(acc, rows[st][l[st] + 1]), R(1), sn)
       ev == FoldSet(LAMBDA l, acc : IF w(l) = R(0) THEN acc ELSE RAdd(acc, RMul(w(l), VFun(M, Vn, det @@ [st \in sn |-> R(l[st])]))), R(0), labs)
   IN RAdd(u, RMul(M.params["beta"], ev))


(* ---------------------------------------------------------------- sparse classification *)
RECURSIVE Anc(_, _)
Anc(M, fname) == UNION {IF a \in VarNames(M) THEN {a} ELSE IF a \in FuncNames(M) THEN Anc(M, a) ELSE {} : a \in ToSet(FuncRec(M, fname).args)}
SparseNames(M) == UNION {Anc(M, f) : f \in FuncsOfKind(M, "filter")}
\* does state combo s admit a filter-passing choice in period t ?
InSpace(M, t, s) == \E c \in IdxSet(ChoiceSeq(M)) : PassAll(M, "filter", EnvOf(M, s, c, t))
Excluded == NaN

FeasMax(M, t, Vn, stEnv) ==  \* stEnv: [state names -> xrat] (maybe off-grid)
   FoldSet(LAMBDA c, acc :
             LET env == stEnv @@ [n \in NamesOf(ChoiceSeq(M)) |-> GridVal(VarRec(M, n), c[n])] @@ ("_period" :> R(t)) IN
             IF PassAll(M, "filter", env) /\ PassAll(M, "constraint", env) THEN RMax(acc, Q(M, t, Vn, env)) ELSE acc,
           NegInf, IdxSet(ChoiceSeq(M)))
VStep(M, t, Vn) ==
   [s \in IdxSet(StateSeq(M)) |->
      IF ~InSpace(M, t, s) THEN Excluded
      ELSE FeasMax(M, t, Vn, [n \in NamesOf(StateSeq(M)) |-> GridVal(VarRec(M, n), s[n])])]

RECURSIVE Prod(_)
Prod(sizes) == IF sizes = <<>> THEN << <<>> >> ELSE
   LET rest == Prod(Tail(sizes)) IN
   FlattenSeq([i \in 1..Head(sizes) |-> [j \in DOMAIN rest |-> <<i - 1>> \o rest[j]]])
\* lcm layout: sparse states (decl order) collapsed to rank axis, dense discrete states, continuous states
LayoutSeq(M) == LET ss == StateSeq(M) sp == SparseNames(M) IN
   SelectSeq(ss, LAMBDA v : v.name \in sp) \o SelectSeq(ss, LAMBDA v : v.name \notin sp /\ v.kind = "disc")
   \o SelectSeq(ss, LAMBDA v : v.name \notin sp /\ v.kind # "disc")
Flat(M, Vt) == LET ls == LayoutSeq(M)
                   idxs == Prod([i \in DOMAIN ls |-> ls[i].n])
                   all == [k \in DOMAIN idxs |-> Vt[[n \in NamesOf(ls) |-> idxs[k][CHOOSE i \in DOMAIN ls : ls[i].name = n]]]]
               IN SelectSeq(all, LAMBDA x : x # Excluded)

(* ---------------------------------------------------------------- simulation rows *)
OnGridIdx(v, x) == CHOOSE i \in 0..v.n - 1 : GridVal(v, i) = x
IsOnGrid(v, x) == \E i \in 0..v.n - 1 : GridVal(v, i) = x
RowCheck(M, t, Vn, row, nxt) ==   \* returns "" or a failure clause
   LET env == row.state @@ row.choice @@ ("_period" :> R(t))
       best == FeasMax(M, t, Vn, row.state)
   IN IF \E n \in NamesOf(ChoiceSeq(M)) : ~IsOnGrid(VarRec(M, n), row.choice[n]) THEN "choice-off-grid"
      ELSE IF ~PassAll(M, "filter", env) THEN "filter"
      ELSE IF ~PassAll(M, "constraint", env) THEN "constraint"
      ELSE IF Q(M, t, Vn, env) # best THEN "not-maximal"
      ELSE IF row.value # best THEN "value"
      ELSE IF t = M.T - 1 THEN ""
      ELSE IF \E n \in DOMAIN NextStates(M, env) : NextStates(M, env)[n] # nxt.state[n] THEN "law-of-motion"
      ELSE IF \E st \in StochNames(M) : Row(M, st, env)[nxt.state[st][1] + 1] = R(0) THEN "zero-prob-draw"
      ELSE ""

=============================================================================
