------------------------------- MODULE XRat -------------------------------
(* Extended rationals: <<n,d>> with d>0 normalised; <<-1,0>> = -inf; <<1,0>> = +inf; <<0,0>> = NaN *)
EXTENDS Integers, Sequences
RECURSIVE Gcd(_,_)
Gcd(a, b) == IF b = 0 THEN a ELSE Gcd(b, a % b)
Abs(x) == IF x < 0 THEN -x ELSE x
Norm(n, d) == IF d = 0 THEN <<IF n > 0 THEN 1 ELSE IF n < 0 THEN -1 ELSE 0, 0>> ELSE
              LET g == Gcd(Abs(n), Abs(d)) 
                  s == IF d < 0 THEN -1 ELSE 1
              IN <<s * (n \div g), s * (d \div g)>>
R(n) == <<n, 1>>
NegInf == <<-1, 0>>
PosInf == <<1, 0>>
NaN == <<0, 0>>
IsFin(x) == x[2] # 0
IsNaN(x) == x = NaN
Sgn(x) == IF x[1] > 0 THEN 1 ELSE IF x[1] < 0 THEN -1 ELSE 0
RAdd(p, q) == IF IsFin(p) /\ IsFin(q) THEN 
                 (IF p[2] = q[2] THEN Norm(p[1] + q[1], p[2]) ELSE Norm(p[1]*q[2] + q[1]*p[2], p[2]*q[2]))
              ELSE IF IsNaN(p) \/ IsNaN(q) THEN NaN
              ELSE IF IsFin(p) THEN q ELSE IF IsFin(q) THEN p
              ELSE IF p = q THEN p ELSE NaN
RNeg(p) == <<-p[1], p[2]>>
RSub(p, q) == RAdd(p, RNeg(q))
RMul(p, q) == IF IsFin(p) /\ IsFin(q) THEN Norm(p[1]*q[1], p[2]*q[2])
              ELSE IF IsNaN(p) \/ IsNaN(q) THEN NaN
              ELSE LET s == Sgn(p) * Sgn(q) IN IF s = 0 THEN NaN ELSE <<s, 0>>
RDiv(p, q) == Norm(p[1]*q[2], p[2]*q[1])   \* finite only, q # 0
RLe(p, q) == IF IsFin(p) /\ IsFin(q) THEN (IF p[2] = q[2] THEN p[1] <= q[1] ELSE p[1]*q[2] <= q[1]*p[2])
             ELSE IF IsNaN(p) \/ IsNaN(q) THEN FALSE
             ELSE IF p = NegInf THEN TRUE ELSE IF q = PosInf THEN TRUE ELSE FALSE
RLt(p, q) == RLe(p, q) /\ p # q
RFloor(p) == p[1] \div p[2]
RMax(x, y) == IF RLe(x, y) THEN y ELSE x
RMin(x, y) == IF RLe(x, y) THEN x ELSE y
=============================================================================
