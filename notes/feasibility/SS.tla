------------------------------- MODULE SS -------------------------------
(* Probe: state-choice space tables (C17). MC mode enumerates every mask; TV mode validates
   observations of lcm.state_space.create_state_choice_space recorded in IOEnv.CASES. *)
EXTENDS Integers, Sequences, FiniteSets, TLC, Json, IOUtils, SequencesExt, FiniteSetsExt
CONSTANTS SShape, CShape, Mode

RECURSIVE Prod(_)
Prod(sizes) == IF sizes = <<>> THEN << <<>> >> ELSE
   LET rest == Prod(Tail(sizes)) IN
   FlattenSeq([i \in 1..Head(sizes) |-> [j \in DOMAIN rest |-> <<i - 1>> \o rest[j]]])
RECURSIVE SeqSum(_)
SeqSum(s) == IF s = <<>> THEN 0 ELSE Head(s) + SeqSum(Tail(s))
B2I(b) == IF b THEN 1 ELSE 0

(* ------------- implementation-shaped (mirrors numpy code) ------------- *)
Cells(ss, cs) == Prod(ss \o cs)                              \* meshgrid(indexing="ij"), raveled
StatesOf(ss) == Prod(ss)
NChoice(cs) == Len(Prod(cs))
\* mask as sequence of booleans aligned with Cells
ImplCombos(ss, cs, m) == LET c == Cells(ss, cs) IN SelectSeq([k \in DOMAIN c |-> <<c[k], m[k]>>], LAMBDA p : p[2])
ImplFeas(ss, cs, m) == [k \in DOMAIN StatesOf(ss) |-> \E j \in 1..NChoice(cs) : m[(k - 1) * NChoice(cs) + j]]   \* mask.any(choice axes)
ImplIndexer(ss, cs, m) == LET f == ImplFeas(ss, cs, m) IN
   [k \in DOMAIN f |-> IF f[k] THEN SeqSum([i \in 1..k |-> B2I(f[i])]) - 1 ELSE -1]                        \* cumsum - 1 / fill -1
ImplSegments(ss, cs, m) == LET f == ImplFeas(ss, cs, m)
                               rows == SelectSeq([k \in DOMAIN f |-> k], LAMBDA k : f[k])                       \* reduced mask rows
                               cnt(k) == SeqSum([j \in 1..NChoice(cs) |-> B2I(m[(k - 1) * NChoice(cs) + j])])
                           IN FlattenSeq([r \in DOMAIN rows |-> [j \in 1..cnt(rows[r]) |-> r - 1]])           \* repeat(arange, n_choices)

(* ------------- declarative (the property's wording) ------------- *)
Lex(a, b) == \E i \in DOMAIN a : a[i] < b[i] /\ \A j \in 1..i-1 : a[j] = b[j]
DeclOK(ss, cs, m, combos, indexer, segs) ==
   LET c == Cells(ss, cs)
       pass == {c[k] : k \in {k \in DOMAIN c : m[k]}}
       st(x) == SubSeq(x, 1, Len(ss))
       admitted == {st(x) : x \in pass}
       sts == StatesOf(ss)
       rank(s) == Cardinality({s2 \in admitted : Lex(s2, s)})
   IN /\ {combos[k] : k \in DOMAIN combos} = pass                                   \* exactly the passing combinations
      /\ Len(combos) = Cardinality(pass)                                            \* without duplicates
      /\ \A k \in 1..Len(combos)-1 : Lex(combos[k], combos[k+1])                    \* row-major order
      /\ \A k \in DOMAIN sts : indexer[k] = IF sts[k] \in admitted THEN rank(sts[k]) ELSE -1
      /\ Len(segs) = Len(combos) /\ \A k \in DOMAIN combos : segs[k] = rank(st(combos[k]))

VARIABLES mask, built, verdict, cid
vars == <<mask, built, verdict, cid>>
NCells == Len(Cells(SShape, CShape))
Cases == IF Mode = "tv" THEN JsonDeserialize(IOEnv.CASES) ELSE <<>>

InitMC == mask \in [1..NCells -> BOOLEAN] /\ built = FALSE /\ verdict = "run" /\ cid = 0
InitTV == cid \in 1..Len(Cases) /\ mask = Cases[cid].mask /\ built = FALSE /\ verdict = "run"
Init == IF Mode = "tv" THEN InitTV ELSE InitMC
Shapes == IF Mode = "tv" THEN <<Cases[cid].sshape, Cases[cid].cshape>> ELSE <<SShape, CShape>>
Build == /\ ~built /\ built' = TRUE /\ UNCHANGED <<mask, cid>>
         /\ LET ss == Shapes[1] cs == Shapes[2]
                combos == [k \in DOMAIN ImplCombos(ss, cs, mask) |-> ImplCombos(ss, cs, mask)[k][1]]
                idx == ImplIndexer(ss, cs, mask)
                seg == ImplSegments(ss, cs, mask)
            IN verdict' =
               IF ~DeclOK(ss, cs, mask, combos, idx, seg) THEN "SPEC-BUG impl # decl"
               ELSE IF Mode # "tv" THEN "ok"
               ELSE LET o == Cases[cid].obs IN
                    IF o.combos # combos THEN "FAIL combos"
                    ELSE IF o.indexer # idx THEN "FAIL indexer"
                    ELSE IF o.segments # seg THEN "FAIL segments"
                    ELSE IF o.num_segments # Cardinality({k \in DOMAIN idx : idx[k] >= 0}) THEN "FAIL num_segments"
                    ELSE "ok"
Next == Build
ImplMatchesDecl == verdict # "SPEC-BUG impl # decl"
Report == (Mode = "tv" /\ verdict # "run") => PrintT(<<"VERDICT", cid, verdict>>)
DumpCase == (Mode = "gen" /\ ~built) => PrintT(<<"CASE", ToJson([sshape |-> SShape, cshape |-> CShape, mask |-> mask])>>)
=============================================================================
