import json, re, sys, time
import numpy as np, jax.numpy as jnp
from dataclasses import make_dataclass
from lcm import Model, DiscreteGrid, LinspaceGrid
from lcm.input_processing import process_model
from lcm.state_space import create_state_choice_space
def cat(n): return make_dataclass("C%d"%n, [("c%d"%i,int,i) for i in range(n)])
D=lambda n: DiscreteGrid(cat(n))
cases=[]
for line in open("gen.out"):
    m=re.search(r'<<"CASE", "(.*)">>', line.strip())
    js=m.group(1).encode().decode('unicode_escape')
    cases.append(json.loads(js))
print(len(cases), cases[0])
c0=cases[0]; ss=c0["sshape"]; cs=c0["cshape"]
MASK={"m":None}
snames=["s%d"%i for i in range(len(ss))]; cnames=["a%d"%i for i in range(len(cs))]
src="def t_filter(%s):\n    return jnp.asarray(MASK['m'])[%s]\n"%(", ".join(snames+cnames), ", ".join(snames+cnames))
ns={"jnp":jnp,"MASK":MASK}; exec(src,ns)
funcs={"utility":eval("lambda %s: 0.0+%s"%(", ".join(snames+cnames), "+".join(snames+cnames))),"t_filter":ns["t_filter"]}
for s in snames: funcs["next_"+s]=eval("lambda %s: %s"%(s,s))
m=Model(n_periods=2,functions=funcs,choices={n:D(k) for n,k in zip(cnames,cs)},states={n:D(k) for n,k in zip(snames,ss)})
pm=process_model(m)
out=[]; t0=time.time()
for c in cases:
    mk=c["mask"]; mk=[mk[str(i)] for i in range(1,len(mk)+1)] if isinstance(mk,dict) else mk
    MASK["m"]=np.array(mk).reshape(ss+cs)
    try:
        sp,info,idx,seg=create_state_choice_space(model=pm,period=0,is_last_period=False,jit_filter=False)
        names=snames+cnames
        combos=[[int(sp.sparse_vars[n][k]) for n in names] for k in range(len(sp.sparse_vars[names[0]]))]
        obs={"combos":combos,"indexer":[int(x) for x in np.asarray(idx["state_indexer"]).ravel()],"segments":[int(x) for x in np.asarray(seg["segment_ids"])],"num_segments":int(seg["num_segments"])}
    except Exception as e:
        obs={"error":type(e).__name__+": "+str(e)[:80]}
    out.append({"sshape":ss,"cshape":cs,"mask":mk,"obs":obs})
print("replay time",time.time()-t0)
errs=[o for o in out if "error" in o["obs"]]
print("errors",len(errs), errs[0]["obs"] if errs else None, errs[0]["mask"] if errs else None)
json.dump([o for o in out if "error" not in o["obs"]],open("tv.json","w"))
