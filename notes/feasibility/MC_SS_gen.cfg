CONSTANTS SShape <- MCS CShape <- MCC Mode = "gen"
INIT Init
NEXT Next
INVARIANT DumpCase
CHECK_DEADLOCK FALSE
