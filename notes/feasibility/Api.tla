------------------------------- MODULE Api -------------------------------
EXTENDS Integers, Sequences, TLC, Json, FiniteSets
CONSTANTS Models, ParamSets, Inits, Seeds, MaxFuncs, Depth
VARIABLES funcs, hist
Targets == {"solve", "simulate", "solve_and_simulate"}
Init == funcs = <<>> /\ hist = <<>>
Create(m, tg, jit) == /\ Len(funcs) < MaxFuncs
                      /\ funcs' = Append(funcs, [model |-> m, target |-> tg, jit |-> jit])
                      /\ hist' = Append(hist, [op |-> "create", model |-> m, target |-> tg, jit |-> jit])
VTerm(m, p) == <<"V", m, p>>
CallSolve(f, p) == /\ funcs[f].target = "solve"
                   /\ hist' = Append(hist, [op |-> "solve", f |-> f, p |-> p, term |-> VTerm(funcs[f].model, p)])
                   /\ UNCHANGED funcs
\* simulate with value arrays taken from an earlier solve call (index k in hist) of the same model
CallSim(f, p, i, s, k) == /\ funcs[f].target = "simulate"
                          /\ k \in DOMAIN hist /\ hist[k].op = "solve" /\ funcs[hist[k].f].model = funcs[f].model
                          /\ hist' = Append(hist, [op |-> "simulate", f |-> f, p |-> p, init |-> i, seed |-> s, vfrom |-> k,
                                                   term |-> <<"F", funcs[f].model, p, hist[k].term, i, s>>])
                          /\ UNCHANGED funcs
CallSS(f, p, i, s) == /\ funcs[f].target = "solve_and_simulate"
                      /\ hist' = Append(hist, [op |-> "solve_and_simulate", f |-> f, p |-> p, init |-> i, seed |-> s,
                                               term |-> <<"F", funcs[f].model, p, VTerm(funcs[f].model, p), i, s>>])
                      /\ UNCHANGED funcs
Next == \/ \E m \in Models, tg \in Targets, j \in BOOLEAN : Create(m, tg, j)
        \/ \E f \in DOMAIN funcs, p \in ParamSets : CallSolve(f, p)
        \/ \E f \in DOMAIN funcs, p \in ParamSets, i \in Inits, s \in Seeds, k \in DOMAIN hist : CallSim(f, p, i, s, k)
        \/ \E f \in DOMAIN funcs, p \in ParamSets, i \in Inits, s \in Seeds : CallSS(f, p, i, s)
Dump == Len(hist) = Depth => PrintT(<<"HIST", ToJson(hist)>>)
Bound == Len(hist) <= Depth
=============================================================================
