INIT Init
NEXT Step
INVARIANT ImplMatchesDecl
CHECK_DEADLOCK FALSE
