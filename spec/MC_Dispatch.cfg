CONSTANTS Mode = "mc" MaxParams = 3 MaxCallParams = 3
SPECIFICATION Spec
INVARIANT AxisOrderIsListedOrder
INVARIANT BindingIsTotalOrRejected
CHECK_DEADLOCK FALSE
