------------------------------- MODULE MC_Grids -------------------------------
(***************************************************************************)
(* Enumeration of all combinations of abstract input classes of the grid   *)
(* constructors (C16) with the decision the specification takes for each;  *)
(* invariant: the decision table is consistent (an input that must be      *)
(* accepted is never one that must be rejected; must-reject is exactly "no *)
(* array of the stated form exists or an ingredient is not a number").     *)
(***************************************************************************)
EXTENDS Grids, Json, IOUtils
CONSTANT Mode
VARIABLES kind, s, e, n, done
vars == <<kind, s, e, n, done>>
Init == /\ kind \in {"lin", "log"} /\ s \in DOMAIN ValueClasses /\ e \in DOMAIN ValueClasses /\ n \in DOMAIN CountClasses
        /\ done = FALSE
Step == ~done /\ done' = TRUE /\ UNCHANGED <<kind, s, e, n>>
Spec == Init /\ [][Step]_vars
S == ValueClasses[s]
E == ValueClasses[e]
N == CountClasses[n]
\* a valid array exists: n >= 1 finite strictly increasing values from start to stop (positive for log)
ArrayExists == /\ IsFin(S.val) /\ IsFin(E.val) /\ N.val >= 1 /\ (N.val >= 2 => RLt(S.val, E.val)) /\ (kind = "log" => RLt(R(0), S.val))
TableConsistent ==
  /\ ~(MustRejectCont(kind, S, E, N) /\ MustAcceptCont(kind, S, E, N))
  /\ (S.num # "no" /\ E.num # "no" /\ N.int # "no") => (MustRejectCont(kind, S, E, N) <=> ~ArrayExists)
Dump == (Mode = "gen" /\ ~done) =>
  PrintT(<<"CASE", ToJson([kind |-> kind, s |-> s, e |-> e, n |-> n,
                           must_reject |-> MustRejectCont(kind, S, E, N), must_accept |-> MustAcceptCont(kind, S, E, N),
                           nval |-> N.val])>>)
=============================================================================
