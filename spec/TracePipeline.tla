------------------------------- MODULE TracePipeline -------------------------------
(***************************************************************************)
(* Trace validation of recorded executions of lcm's public pipeline        *)
(* (get_lcm_function -> solve / simulate / solve_and_simulate) against the *)
(* specification.  One TLC run validates a batch of cases                  *)
(* (IOEnv.CASES = JSON file); every case is an initial state and its       *)
(* events are consumed one step at a time:                                 *)
(*                                                                         *)
(*   scope -> spec (the backward loop of module Pipeline, one SolveStep    *)
(*   per period) -> events: template | solve | simulate (one step for the  *)
(*   frame, one SimPeriod step per period) | rel-solve | rel-sim -> done   *)
(*                                                                         *)
(* Verdicts are total: a mismatch does not disable the step, it sets       *)
(* verdict = <<"FAIL", clause, detail>> (one VERDICT line per case).       *)
(* `groups' of a case selects which properties' clauses are evaluated:     *)
(*   "template" (C07)  "solve" (C01, C05)  "c02"  "c03"  "c06"  "c13"      *)
(***************************************************************************)
EXTENDS Pipeline, Simulate, Json, IOUtils

Cases == JsonDeserialize(IOEnv.CASES)

VARIABLES cid, pc, l, t, Vs, verdict, exact, nrows, nskip, diag, Ci
vars == <<cid, pc, l, t, Vs, verdict, exact, nrows, nskip, diag, Ci>>
\*   Ci   (cases with `diag_ccv') the implementation-shaped conditional continuation values and value arrays of
\*        module Solve per period, <<ccv, V>> chronological: for step localisation against the solve_period hook events

C      == Cases[cid]
M      == C.mdl
Ev     == C.events[l]
Grp(g) == g \in ToSet(C.groups)
Tol    == C.tol
NeedV  == Grp("solve") \/ Grp("c02")
Running == verdict[1] = "run"
Fail(clause, detail) == <<"FAIL", clause, detail>>

Init ==
  /\ cid \in 1..Len(Cases)
  /\ pc = "scope" /\ l = 1 /\ t = 0 /\ Vs = <<>> /\ verdict = <<"run">> /\ exact = TRUE
  /\ nrows = 0 /\ nskip = 0 /\ diag = <<>> /\ Ci = <<>>

(* ------------------------------------------------------------ scope *)
TrScope ==
  /\ Running /\ pc = "scope"
  /\ LET why == StaticScope(M)
     IN IF why # "" THEN verdict' = <<"SKIP", why>> /\ pc' = "done" /\ t' = 0
        ELSE verdict' = verdict /\ pc' = (IF NeedV THEN "spec" ELSE "events") /\ t' = M.T
  /\ UNCHANGED <<cid, l, Vs, exact, nrows, nskip, diag, Ci>>

(* ------------------------------------------------------------ the specification's own solution *)
TrSpecSolve ==
  /\ Running /\ pc = "spec" /\ t > 0
  /\ Vs' = SolveStep(M, t, Vs)
  /\ Ci' = IF C.diag_ccv
           THEN LET ccv == TLCEval(SolveContinuous(M, t - 1, IF Ci = <<>> THEN <<>> ELSE Ci[1][2]))
                IN <<<<ccv, TLCEval(SolveDiscrete(M, t - 1, ccv))>>>> \o Ci
           ELSE Ci
  /\ t' = t - 1
  /\ LET why == ScopeOfV(M, Vs'[1])
     IN IF why # "" THEN verdict' = <<"SKIP", why>> /\ pc' = "done"
        ELSE verdict' = verdict /\ pc' = (IF t = 1 THEN "events" ELSE "spec")
  /\ UNCHANGED <<cid, l, exact, nrows, nskip, diag>>

(* ------------------------------------------------------------ template (C07) *)
TemplateFail(ev) ==
  LET tm == Template(M)
  IN IF ToSet(ev.keys) # tm.keys \/ Len(ev.keys) # Cardinality(tm.keys)
        THEN Fail("template-keys", ToString(<<ev.keys, tm.keys>>))
     ELSE IF \E f \in FuncNames(M) : ToSet(ev.funcs[f]) # tm.funcs[f] \/ Len(ev.funcs[f]) # Cardinality(tm.funcs[f])
        THEN Fail("template-params", ToString(<<ev.funcs, tm.funcs>>))
     ELSE IF DOMAIN ev.shocks # StochNames(M)
        THEN Fail("template-shocks", ToString(<<DOMAIN ev.shocks, StochNames(M)>>))
     ELSE IF \E st \in StochNames(M) : ev.shocks[st] # tm.shocks[st]
        THEN Fail("template-shape", ToString(<<ev.shocks, tm.shocks>>))
     ELSE IF ~ev.allnan THEN Fail("template-leaves", "a leaf of the template is not NaN")
     ELSE <<"run">>
(***************************************************************************)
(* Diagnostic (never a verdict): the tables lcm derives from the model     *)
(* (input_processing.util: canonical variable order, restricted and        *)
(* auxiliary variables, kinds of functions) against module Mdl.  These are *)
(* internal structures a refactoring may change; a difference is reported  *)
(* in the evidence as the first place to look, not as a violation.         *)
(***************************************************************************)
KindOf(f) == IF f.kind = "filter" THEN "filter" ELSE IF f.kind = "constraint" THEN "constraint"
             ELSE IF f.kind \in {"next", "stoch"} THEN "next" ELSE "other"
ClassifyDiag(ev) ==
  (IF ev.canon # [i \in DOMAIN Canon(M) |-> Canon(M)[i].name] THEN <<"canonical-order">> ELSE <<>>)
  \o (IF ToSet(ev.sparse) # SparseNames(M) THEN <<"restricted-variables">> ELSE <<>>)
  \o (IF ToSet(ev.aux) # AuxStates(M) THEN <<"auxiliary-states">> ELSE <<>>)
  \o (IF ToSet(ev.stochastic) # StochNames(M) THEN <<"stochastic-states">> ELSE <<>>)
  \o (IF \E i \in DOMAIN M.funcs : ev.fkinds[M.funcs[i].name] # KindOf(M.funcs[i]) THEN <<"function-kinds">> ELSE <<>>)
TrTemplate ==
  /\ Running /\ pc = "events" /\ l <= Len(C.events) /\ Ev.e = "template"
  /\ verdict' = (IF Grp("template") THEN TemplateFail(Ev) ELSE verdict)
  /\ diag' = diag \o ClassifyDiag(Ev)
  /\ l' = l + 1
  /\ UNCHANGED <<cid, pc, t, Vs, exact, nrows, nskip, Ci>>

(* ------------------------------------------------------------ solve (C01, C05) *)
SpecFlat(p) == Flat(M, Vs[p + 1])
SolveFail(ev) ==
  IF ev.n # M.T \/ Len(ev.V) # M.T \/ Len(ev.shapes) # M.T
     THEN Fail("n-arrays", ToString(<<ev.n, M.T>>))
  ELSE IF \E p \in 0..M.T - 1 : ev.shapes[p + 1] # Shape(M, p)
     THEN LET p == CHOOSE p \in 0..M.T - 1 : ev.shapes[p + 1] # Shape(M, p)
          IN Fail("layout-shape", ToString(<<"period", p, "obs", ev.shapes[p + 1], "spec", Shape(M, p)>>))
  ELSE IF \E p \in 0..M.T - 1 : Len(ev.V[p + 1]) # Len(SpecFlat(p))
     THEN Fail("layout-shape", "number of entries")
  ELSE IF \E p \in 0..M.T - 1 : \E k \in DOMAIN ev.V[p + 1] : ~Close(SpecFlat(p)[k], ev.V[p + 1][k], Tol)
     THEN LET p == CHOOSE p \in 0..M.T - 1 : \E k \in DOMAIN ev.V[p + 1] : ~Close(SpecFlat(p)[k], ev.V[p + 1][k], Tol)
              k == CHOOSE k \in DOMAIN ev.V[p + 1] : ~Close(SpecFlat(p)[k], ev.V[p + 1][k], Tol)
          IN Fail(IF IsFin(SpecFlat(p)[k]) /\ IsFin(ev.V[p + 1][k]) THEN "solve-value" ELSE "neg-inf-iff-infeasible",
                  ToString(<<"period", p, "entry", k - 1, "spec", SpecFlat(p)[k], "obs", ev.V[p + 1][k]>>))
  ELSE <<"run">>
\* layout only (group "shape"): the list length and every array shape, for models whose values the exact semantics does not
\* speak about -- continuous grids whose spacing is below the resolution of the working precision: neighbouring nodes
\* coincide after rounding, the axis still has the length of the grid (C05)
ShapeFail(ev) ==
  IF ev.n # M.T \/ Len(ev.V) # M.T \/ Len(ev.shapes) # M.T
     THEN Fail("n-arrays", ToString(<<ev.n, M.T>>))
  ELSE IF \E p \in 0..M.T - 1 : ev.shapes[p + 1] # Shape(M, p)
     THEN LET p == CHOOSE p \in 0..M.T - 1 : ev.shapes[p + 1] # Shape(M, p)
          IN Fail("layout-shape", ToString(<<"period", p, "obs", ev.shapes[p + 1], "spec", Shape(M, p)>>))
  ELSE IF \E p \in 0..M.T - 1 : Len(ev.V[p + 1]) # NumCells(M, p)
     THEN Fail("layout-shape", "number of entries")
  ELSE <<"run">>
SolveExact(ev) == \A p \in 0..M.T - 1 : ev.V[p + 1] = SpecFlat(p)
\* diagnostic: the recorded intermediate arrays of the backward loop against the implementation-shaped machine
CcvKeys(p) ==
  LET nr == IF HasSparse(M) THEN Len(Rows(M, p)) ELSE 0
      dense == Prod(SizesOf(DenseAxes(M)))
  IN IF HasSparse(M) THEN FlattenSeq([r \in 1..nr |-> [k \in DOMAIN dense |-> <<r - 1>> \o dense[k]]]) ELSE dense
CcvDiag(ev) ==
  IF ~C.diag_ccv \/ Len(ev.ccv) # M.T THEN <<>>
  ELSE LET bad == {p \in 0..M.T - 1 :
                     \/ Len(ev.ccv[p + 1]) # Len(CcvKeys(p))
                     \/ \E k \in DOMAIN CcvKeys(p) : ~Close(Ci[p + 1][1][CcvKeys(p)[k]], ev.ccv[p + 1][k], Tol)}
       IN IF bad = {} THEN <<"ccv-steps-agree">> ELSE <<"ccv-step-differs">>
TrSolve ==
  /\ Running /\ pc = "events" /\ l <= Len(C.events) /\ Ev.e = "solve"
  /\ IF Grp("solve")
     THEN /\ verdict' = SolveFail(Ev)
          /\ exact' = (exact /\ verdict'[1] = "run" /\ SolveExact(Ev))
     ELSE IF Grp("shape")
     THEN verdict' = ShapeFail(Ev) /\ exact' = FALSE
     ELSE UNCHANGED <<verdict, exact>>
  /\ diag' = diag \o CcvDiag(Ev)
  /\ l' = l + 1
  /\ UNCHANGED <<cid, pc, t, Vs, nrows, nskip, Ci>>

(* ------------------------------------------------------------ simulate: the frame (C13) *)
SimN(ev) == ev.N
\* (a frame may be the projection of a larger batch onto ev.N kept agents: full_N agents were simulated, full_rows rows returned)
FrameFail(ev) ==
  IF Len(ev.rows) # M.T * ev.N \/ Len(ev.index) # M.T * ev.N
     THEN Fail("row-count", ToString(<<Len(ev.rows), M.T, ev.N>>))
  ELSE IF "full_rows" \in DOMAIN ev /\ ev.full_rows # M.T * ev.full_N
     THEN Fail("row-count", ToString(<<"whole frame", ev.full_rows, M.T, ev.full_N>>))
  ELSE IF ev.index # PanelIndex(M.T, ev.N)
     THEN Fail("frame-index", ToString(ev.index))
  ELSE IF Grp("c13") /\ (ToSet(ev.cols) # PanelColumns(M, ToSet(ev.targets)) \/ Len(ev.cols) # Cardinality(ToSet(ev.cols)))
     THEN Fail("columns", ToString(ev.cols))
  ELSE IF Grp("c13") /\ ev.index_names # <<"period", "initial_state_id">>
     THEN Fail("frame-index", ToString(ev.index_names))
  ELSE IF (Grp("c06") \/ (Grp("c02") /\ ev.vsrc # "own"))
          /\ (Len(ev.V) # M.T \/ \E p \in 0..M.T - 1 : Len(ev.V[p + 1]) # NumCells(M, p))
     THEN Fail("layout-shape", "value arrays in use do not have the layout of C05")
  ELSE <<"run">>
TrSimFrame ==
  /\ Running /\ pc = "events" /\ l <= Len(C.events) /\ Ev.e = "simulate"
  /\ verdict' = FrameFail(Ev)
  /\ pc' = "sim" /\ t' = 0
  /\ UNCHANGED <<cid, l, Vs, exact, nrows, nskip, diag, Ci>>

(* ------------------------------------------------------------ simulate: one period *)
RowAt(ev, p, i) == ev.rows[p * ev.N + i]
\* value function of period p in use by the simulation
\* (TLCEval: tabulate once per step; TLC would otherwise re-evaluate Unflat at every look-up)
VInUse(ev, p) == IF ev.vsrc = "own" THEN Vs[p + 1] ELSE TLCEval(Unflat(M, p, ev.V[p + 1]))

RowC13(ev, p, row) ==
  LET env == row.state @@ row.choice @@ ("_period" :> R(p))
  IN IF row.period # R(p) THEN "period-column"
     ELSE IF \E nm \in ToSet(ev.targets) : ~Close(TargetVal(M, nm, env), row.targets[nm], Tol) THEN "target-column"
     ELSE ""
RowC06(ev, p, row, Vobs) ==
  IF ~RowOnGrid(M, row) THEN ""
  ELSE LET v == Vobs[RowIdx(M, row)]
       IN IF v = Excl THEN "SKIP:agent-outside-space"
          ELSE IF ~Close(v, row.value, C.reltol) THEN "value-vs-array" ELSE ""
RowVerdict(ev, p, i, Vn, Vobs) ==
  LET row == RowAt(ev, p, i)
      r13 == IF Grp("c13") THEN RowC13(ev, p, row) ELSE ""
      r03 == IF ~Grp("c03") THEN ""
             ELSE IF p = 0 /\ \E n \in StateNames(M) : row.state[n] # ev.init[n][i] THEN "initial-state"
             ELSE IF p < M.T - 1 THEN RowMotion(M, p, row, RowAt(ev, p + 1, i)) ELSE ""
      r02 == IF Grp("c02") THEN RowChoice(M, p, Vn, row, Tol) ELSE ""
      r06 == IF Grp("c06") THEN RowC06(ev, p, row, Vobs) ELSE ""
  IN IF r13 # "" THEN r13 ELSE IF r03 # "" THEN r03 ELSE IF r02 # "" THEN r02 ELSE r06
(***************************************************************************)
(* Diagnostic (never a verdict): the intermediate state of one simulated   *)
(* period recorded by the hooks sim_space / sim_policy against the         *)
(* implementation-shaped module Simulate: rows of the data state-choice    *)
(* space and their segment ids, the per-row conditional values and         *)
(* continuous policies, the dense and sparse arg-max, the value.           *)
(***************************************************************************)
ArrOfFlat(flat, shape) == [idx \in ToSet(Prod(shape)) |-> flat[RowMajorPos(idx, shape)]]
SimStepDiag(ev, p) ==
  IF ~C.diag_sim \/ Len(ev.steps) # M.T \/ Len(ev.V) # M.T THEN <<>>
  ELSE
  LET st == ev.steps[p + 1]
      agents == [i \in 1..ev.N |-> RowAt(ev, p, i).state]
      Vnext == IF p = M.T - 1 THEN <<>> ELSE TLCEval(ArrOfFlat(ev.V[p + 2], Shape(M, p + 1)))
      rows == DataRows(M, p, agents)
      combos == SparseChoiceCombos(M)
      ds == DenseChoiceIdx(M)
      hasSC == CanonSparseChoices(M) # <<>>
      pol == TLCEval([r \in DOMAIN rows |-> [j \in DOMAIN ds |-> CcvPolicy(M, p, Vnext, RowEnv(M, p, agents, rows[r], ds[j]))]])
      rowMax(r) == RMaxOver(DOMAIN ds, LAMBDA j : pol[r][j][2])
      seg(i) == {r \in DOMAIN rows : rows[r][1] = i}
      segMax(i) == RMaxOver(seg(i), rowMax)
      nd == Len(ds)
  IN IF st.nrows # Len(rows) THEN <<"sim-step-differs:number-of-rows">>
     ELSE IF hasSC /\ \E r \in DOMAIN rows : \E n \in DOMAIN combos[rows[r][2]] :
                        st.sparse[n][r] # GridVal(VarRec(M, n), combos[rows[r][2]][n]) THEN <<"sim-step-differs:rows">>
     ELSE IF hasSC /\ st.segments # [r \in DOMAIN rows |-> rows[r][1] - 1] THEN <<"sim-step-differs:segment-ids">>
     ELSE IF Len(st.ccv) # Len(rows) * nd THEN <<"sim-step-differs:ccv-shape">>
     ELSE IF \E r \in DOMAIN rows : \E j \in DOMAIN ds : ~Close(pol[r][j][2], st.ccv[(r - 1) * nd + j], Tol) THEN <<"sim-step-differs:ccv">>
     ELSE IF \E i \in 1..ev.N : ~Close(segMax(i), st.value[i], Tol) THEN <<"sim-step-differs:value">>
     ELSE <<"sim-steps-agree">>

SkipSet == {"SKIP:transition-into-excluded-state", "SKIP:ill-defined-arithmetic",
            "SKIP:agent-outside-space", "SKIP:no-feasible-choice",
            "SKIP:D18-infeasible-choice-reported-where-the-feasible-maximum-is-minus-infinity"}

\* rows outside the scope of the properties are counted (nskip), not judged
TrSimPeriod ==
  /\ Running /\ pc = "sim" /\ t < M.T
  /\ LET ev   == Ev
         Vn   == IF Grp("c02") /\ t < M.T - 1 THEN VInUse(ev, t + 1) ELSE <<>>
         Vobs == IF Grp("c06") THEN TLCEval(Unflat(M, t, ev.V[t + 1])) ELSE <<>>
         res  == [i \in 1..ev.N |-> RowVerdict(ev, t, i, Vn, Vobs)]
         bad  == {i \in 1..ev.N : res[i] \notin SkipSet \cup {""}}
         skip == {i \in 1..ev.N : res[i] \in SkipSet}
     IN /\ IF bad # {}
           THEN LET k == CHOOSE k \in bad : \A j \in bad : k <= j
                IN verdict' = Fail(res[k], ToString(<<"period", t, "agent", k - 1, "row", RowAt(ev, t, k)>>))
           ELSE verdict' = verdict
        /\ nrows' = nrows + ev.N
        /\ nskip' = nskip + Cardinality(skip)
        \* the reasons for which rows were set aside are reported with the verdict (as diagnostics)
        /\ diag' = diag \o SimStepDiag(ev, t) \o SetToSeq({res[i] : i \in skip})
  /\ t' = t + 1
  /\ IF t = M.T - 1 THEN pc' = "events" /\ l' = l + 1 ELSE UNCHANGED <<pc, l>>
  /\ UNCHANGED <<cid, Vs, exact, Ci>>

(* ------------------------------------------------------------ relations between recorded runs *)
(***************************************************************************)
(* rel-solve: the solve events a and b of this case returned the same      *)
(* arrays (C01 jit = eager, C09 purity).                                   *)
(* rel-sim: agent j of simulate event b behaves like agent map[j] of       *)
(* simulate event a -- in every period (scope "all") or in its period-0    *)
(* decision and value only (scope "period0"): permutation, subset,         *)
(* duplication, key order (C08); same seed / other seed (C04); repeated    *)
(* or interleaved calls (C09); solve_and_simulate vs solve-then-simulate   *)
(* (C06).  States, choices and `_period' must be identical, values agree   *)
(* up to the case's relation tolerance (<<0,1>> = identical).              *)
(***************************************************************************)
RelSolveFail(ev) ==
  LET a == C.events[ev.a]  b == C.events[ev.b]
  IN IF a.shapes # b.shapes THEN Fail(ev.what, "shapes differ")
     ELSE IF \E p \in DOMAIN a.V : \E k \in DOMAIN a.V[p] : ~Close(a.V[p][k], b.V[p][k], C.reltol)
        THEN Fail(ev.what, ToString(<<"first array", a.V, "second array", b.V>>))
     ELSE <<"run">>
RelSimFail(ev) ==
  LET a == C.events[ev.a]  b == C.events[ev.b]
      periods == IF ev.scope = "all" THEN 0..M.T - 1 ELSE {0}
      same(ra, rb) == /\ ra.choice = rb.choice
                      /\ Close(ra.value, rb.value, C.reltol)
                      /\ (ev.scope = "all" => ra.state = rb.state /\ ra.period = rb.period)
      \* an agent whose value is NaN in both runs has left the scope of the properties (ill-defined arithmetic such as
      \* 0 * -inf): its decisions are arbitrary from then on and are not compared; NaN in only one run is a difference
      undefinedFrom(j) == {p \in 0..M.T - 1 : IsNaN(RowAt(a, p, ev.map[j] + 1).value) /\ IsNaN(RowAt(b, p, j).value)}
      inScope(p, j) == \A q \in undefinedFrom(j) : p < q
      badPairs == {<<p, j>> \in periods \X (1..b.N) : inScope(p, j) /\ ~same(RowAt(a, p, ev.map[j] + 1), RowAt(b, p, j))}
  IN IF Len(ev.map) # b.N THEN Fail(ev.what, "number of agents")
     ELSE IF badPairs # {}
        THEN LET pj == CHOOSE pj \in badPairs : TRUE
             IN Fail(ev.what, ToString(<<"period", pj[1], "agent", pj[2] - 1, "row", RowAt(b, pj[1], pj[2]),
                                         "reference agent", ev.map[pj[2]], "row", RowAt(a, pj[1], ev.map[pj[2]] + 1)>>))
     ELSE <<"run">>
TrRel ==
  /\ Running /\ pc = "events" /\ l <= Len(C.events) /\ Ev.e \in {"rel-solve", "rel-sim"}
  /\ verdict' = (IF Ev.e = "rel-solve" THEN RelSolveFail(Ev) ELSE RelSimFail(Ev))
  /\ l' = l + 1
  /\ UNCHANGED <<cid, pc, t, Vs, exact, nrows, nskip, diag, Ci>>

(* ------------------------------------------------------------ exceptions *)
\* an exception raised by lcm on an accepted, in-scope model: the call did not deliver
TrError ==
  /\ Running /\ pc = "events" /\ l <= Len(C.events) /\ Ev.e = "error"
  /\ verdict' = Fail("crash", ToString(<<Ev.op, Ev.cls, Ev.msg>>))
  /\ l' = l + 1
  /\ UNCHANGED <<cid, pc, t, Vs, exact, nrows, nskip, diag, Ci>>

(* ------------------------------------------------------------ end of trace *)
TrDone ==
  /\ Running /\ pc = "events" /\ l > Len(C.events)
  /\ verdict' = <<"ok">> /\ pc' = "done"
  /\ UNCHANGED <<cid, l, t, Vs, exact, nrows, nskip, diag, Ci>>

Next == TrScope \/ TrSpecSolve \/ TrError \/ TrTemplate \/ TrSolve \/ TrSimFrame \/ TrSimPeriod \/ TrRel \/ TrDone
Spec == Init /\ [][Next]_vars

\* one line per case when its verdict is reached
Report == (verdict[1] # "run") => PrintT(<<"VERDICT", ToJson([cid |-> C.cid, v |-> verdict, exact |-> exact, nrows |-> nrows, nskip |-> nskip, diag |-> diag])>>)
=============================================================================
