CONSTANTS Models = {1, 2} ParamSets = {1, 2, 3} Inits = {1, 2} Seeds = {1, 2} MaxFuncs = 4 Depth = 10
SPECIFICATION ASpec
INVARIANT Dump
CONSTRAINT Bound
CHECK_DEADLOCK FALSE
