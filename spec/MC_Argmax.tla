------------------------------- MODULE MC_Argmax -------------------------------
(***************************************************************************)
(* Exhaustive small-scope check of the arg-max primitive (C18): for every  *)
(* array over {0,1,2} (ties!), every mask (or no mask) and every ordered   *)
(* non-empty subset of axes of the listed shapes, the implementation-      *)
(* shaped ImplArgmaxAt satisfies the declarative clause of the property.   *)
(* Mode = "gen" prints the same cases for replay into lcm.argmax.argmax.   *)
(***************************************************************************)
EXTENDS Argmax, Json, IOUtils
CONSTANTS Mode, MaxCells

Shapes == {<<2>>, <<3>>, <<4>>, <<2, 2>>, <<2, 3>>, <<3, 2>>, <<2, 2, 2>>}
AxesOf(rank) ==
  IF rank = 1 THEN {<<0>>}
  ELSE IF rank = 2 THEN {<<0>>, <<1>>, <<0, 1>>, <<1, 0>>}
  ELSE {<<0>>, <<1>>, <<2>>, <<0, 1>>, <<1, 2>>, <<0, 2>>, <<2, 0>>, <<0, 1, 2>>, <<2, 1, 0>>}

VARIABLES shape, a, hasW, w, axes, done
vars == <<shape, a, hasW, w, axes, done>>
Init ==
  /\ shape \in {sh \in Shapes : SizeOf(sh) <= MaxCells}
  /\ a \in [1..SizeOf(shape) -> {R(0), R(1), R(2)}]
  /\ hasW \in BOOLEAN
  /\ w \in IF hasW THEN [1..SizeOf(shape) -> BOOLEAN] ELSE {[i \in 1..SizeOf(shape) |-> TRUE]}
  /\ axes \in AxesOf(Len(shape))
  /\ done = FALSE
Step == ~done /\ done' = TRUE /\ UNCHANGED <<shape, a, hasW, w, axes>>
Spec == Init /\ [][Step]_vars

ImplSatisfiesDecl ==
  done => \A o \in ToSet(Prod(SubShape(shape, FrontAxes(shape, axes)))) :
             LET r == ImplArgmaxAt(a, w, hasW, shape, axes, o)
             IN ArgmaxClause(a, w, hasW, shape, axes, o, r[1], r[2], R(0)) = ""
Dump == (Mode = "gen" /\ ~done) =>
  PrintT(<<"CASE", ToJson([shape |-> shape, a |-> a, has_where |-> hasW, where |-> w, axes |-> axes])>>)
=============================================================================
