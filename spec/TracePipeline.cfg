CONSTANT IndexerPeriod = "next"
SPECIFICATION Spec
INVARIANT Report
CHECK_DEADLOCK FALSE
