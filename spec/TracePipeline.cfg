CONSTANTS IndexerPeriod = "next" DenseSelect = "row"
SPECIFICATION Spec
INVARIANT Report
CHECK_DEADLOCK FALSE
