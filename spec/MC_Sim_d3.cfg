CONSTANTS IndexerPeriod = "next" DenseSelect = "segment" Horizons = {2} Betas <- BetasQuick Curvatures = {1} WithStochastic = {FALSE} Mask0Set <- SimMask0
SPECIFICATION Spec
INVARIANT ChoiceFeasibleAndMaximal
CHECK_DEADLOCK FALSE
