CONSTANTS Mode = "mc"  MaxCells = 9
SPECIFICATION Spec
INVARIANT ImplSatisfiesDecl
INVARIANT IndexerIsRank
CHECK_DEADLOCK FALSE
