------------------------------- MODULE Family -------------------------------
(***************************************************************************)
(* A family of model descriptions defined inside TLA+ (used by MC_Solve    *)
(* and MC_Sim): restricted state r (2 labels) and restricted choice a (2)  *)
(* with a filter mask that may differ between period 0 and the later       *)
(* periods, an unrestricted discrete choice b, a continuous state w and a  *)
(* continuous choice c on 3-point grids with the budget constraint c <= w, *)
(* quadratic utility in c with interactions, next_w = w - c + b (leaves    *)
(* the grid: extrapolation), next_r = a table into the admitted states;    *)
(* optionally a stochastic unrestricted state h whose row depends on       *)
(* (b, h).  Parameters: both masks, the curvature uc, beta, the horizon.   *)
(***************************************************************************)
EXTENDS XRat

KC(n) == <<"const", <<n, 1>>>>
KV(x) == <<"var", x>>
Var(name, role, kind, n, lo, hi) ==
  [name |-> name, role |-> role, kind |-> kind, n |-> n, start |-> <<lo, 1>>, stop |-> <<hi, 1>>, nodes |-> <<>>]
Fn(name, kind, args, expr) == [name |-> name, kind |-> kind, args |-> args, expr |-> expr, state |-> ""]

\* mask tables: m0 for period 0, m1 for the later periods; entries indexed [period][r][a]
MaskTab(m0, m1, T) ==
  [p \in 1..T |-> LET m == IF p = 1 THEN m0 ELSE m1 IN <<<<m[1], m[2]>>, <<m[3], m[4]>>>>]
Admitted(m) == {r \in 0..1 : m[2 * r + 1] \/ m[2 * r + 2]}
\* next_r: stay if admitted next period, otherwise move to the smallest admitted state of the next period
NextRTab(m0, m1, T) ==
  [p \in 1..T |-> LET nxt == m1
                      tgt(r) == IF r \in Admitted(nxt) THEN r ELSE CHOOSE x \in Admitted(nxt) : \A y \in Admitted(nxt) : x <= y
                  IN <<<<R(tgt(0)), R(tgt(0))>>, <<R(tgt(1)), R(tgt(1))>>>>]

FamModel(T, beta, uc, m0, m1, stoch) ==
  [T |-> T,
   vars |-> <<Var("w", "state", "lin", 3, 0, 2), Var("r", "state", "disc", 2, 0, 0)>>
            \o (IF stoch THEN <<Var("h", "state", "disc", 2, 0, 0)>> ELSE <<>>)
            \o <<Var("b", "choice", "disc", 2, 0, 0), Var("a", "choice", "disc", 2, 0, 0), Var("c", "choice", "lin", 3, 0, 2)>>,
   funcs |-> <<Fn("utility", "utility", <<"c", "w", "r", "a", "b", "_period">> \o (IF stoch THEN <<"h">> ELSE <<>>),
                  <<"add", <<"mul", KV("c"), <<"sub", KC(uc + 2), KV("c")>>>>,
                    <<"add", <<"mul", KV("r"), KV("w")>>,
                      <<"add", <<"sub", <<"mul", KC(2), KV("a")>>, KV("b")>>,
                        IF stoch THEN <<"add", KV("_period"), <<"mul", KV("h"), KV("b")>>>> ELSE KV("_period")>>>>>>),
               Fn("next_w", "next", <<"w", "c", "b">>, <<"add", <<"sub", KV("w"), KV("c")>>, KV("b")>>),
               Fn("next_r", "next", <<"r", "a", "_period">>, <<"tab", <<"_period", "r", "a">>, NextRTab(m0, m1, T)>>),
               Fn("bc_constraint", "constraint", <<"c", "w">>, <<"le", KV("c"), KV("w")>>),
               Fn("m_filter", "filter", <<"a", "r", "_period">>, <<"tab", <<"_period", "r", "a">>, MaskTab(m0, m1, T)>>)>>
             \o (IF stoch THEN <<[name |-> "next_h", kind |-> "stoch", args |-> <<"b", "h">>, expr |-> KC(0), state |-> "h"]>> ELSE <<>>),
   params |-> [beta |-> beta, utility |-> <<>>, next_w |-> <<>>, next_r |-> <<>>, bc_constraint |-> <<>>, m_filter |-> <<>>,
               next_h |-> <<>>,
               shocks |-> [h |-> << << <<<<1, 2>>, <<1, 2>>>>, <<<<0, 1>>, <<1, 1>>>> >>,
                                    << <<<<1, 4>>, <<3, 4>>>>, <<<<1, 1>>, <<0, 1>>>> >> >>]]]

Masks == {m \in [1..4 -> BOOLEAN] : Admitted(m) # {}}
BetasQuick == {<<1, 2>>}
BetasAll == {<<1, 2>>, <<1, 1>>}
\* quick: period-0 masks that exclude a state or a choice
\* MC_Sim quick: three period-0 masks (a state excluded; a choice excluded; everything allowed)
SimMask0 == {m \in Masks : m \in {<<TRUE, TRUE, FALSE, FALSE>>, <<TRUE, FALSE, TRUE, TRUE>>}}
QuickMask0 == {m \in Masks : Cardinality({i \in 1..4 : m[i]}) <= 2}
=============================================================================
