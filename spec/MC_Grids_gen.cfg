CONSTANT Mode = "gen"
SPECIFICATION Spec
INVARIANT Dump
CHECK_DEADLOCK FALSE
