------------------------------- MODULE Grids -------------------------------
(***************************************************************************)
(* Grid construction (lcm.grids), C16: a grid is either rejected with the  *)
(* grid initialization error or materialises exactly as specified.         *)
(*                                                                         *)
(* Inputs are abstract classes; the harness maps each class to a concrete  *)
(* Python object.  A class carries                                         *)
(*   num : "yes" (python int/float), "maybe" (bool, numpy scalars: the     *)
(*         library may accept or reject them), "no" (str, None, list)      *)
(*   val : its numeric value as an extended rational (NaN, +-inf included) *)
(***************************************************************************)
EXTENDS Interp

ValueClasses ==
  [neg     |-> [num |-> "yes", val |-> <<-5, 2>>],
   zero    |-> [num |-> "yes", val |-> <<0, 1>>],
   pos     |-> [num |-> "yes", val |-> <<3, 2>>],
   posint  |-> [num |-> "yes", val |-> <<3, 1>>],
   four    |-> [num |-> "yes", val |-> <<4, 1>>],
   big     |-> [num |-> "yes", val |-> <<100000, 1>>],
   small   |-> [num |-> "yes", val |-> <<1, 1000>>],
   nan     |-> [num |-> "yes", val |-> NaN],
   inf     |-> [num |-> "yes", val |-> PosInf],
   ninf    |-> [num |-> "yes", val |-> NegInf],
   true    |-> [num |-> "maybe", val |-> <<1, 1>>],
   npf64   |-> [num |-> "maybe", val |-> <<2, 1>>],
   npf32   |-> [num |-> "maybe", val |-> <<2, 1>>],
   npi64   |-> [num |-> "maybe", val |-> <<2, 1>>],
   str     |-> [num |-> "no", val |-> NaN],
   none    |-> [num |-> "no", val |-> NaN],
   list    |-> [num |-> "no", val |-> NaN]]
\* n_points classes: int |-> is it a python int; val |-> its value
CountClasses ==
  [n0 |-> [int |-> "yes", val |-> 0], n1 |-> [int |-> "yes", val |-> 1], n2 |-> [int |-> "yes", val |-> 2],
   n3 |-> [int |-> "yes", val |-> 3], n5 |-> [int |-> "yes", val |-> 5], nneg |-> [int |-> "yes", val |-> -1],
   nfloat |-> [int |-> "no", val |-> 3], ntrue |-> [int |-> "maybe", val |-> 1], nstr |-> [int |-> "no", val |-> 3],
   nnone |-> [int |-> "no", val |-> 0]]

(***************************************************************************)
(* No array with the stated form exists / the input is not a grid          *)
(* specification: the constructor must raise GridInitializationError.      *)
(***************************************************************************)
MustRejectCont(kind, s, e, n) ==
  \/ s.num = "no" \/ e.num = "no" \/ n.int = "no"
  \/ n.val < 1
  \/ ~IsFin(s.val) \/ ~IsFin(e.val)
  \/ (n.val >= 2 /\ ~RLt(s.val, e.val))
  \/ (kind = "log" /\ ~RLt(R(0), s.val))
\* an accepted input for which the outcome is fully determined (every ingredient a plain python number)
MustAcceptCont(kind, s, e, n) ==
  /\ ~MustRejectCont(kind, s, e, n)
  /\ s.num = "yes" /\ e.num = "yes" /\ n.int = "yes" /\ RLt(s.val, e.val)

(***************************************************************************)
(* Laws of a materialised grid on *normalised* observations (the driver    *)
(* divides by the quantities named; TLA+ has no floats):                   *)
(*   first = (g[0] - start) / scale, last = (g[n-1] - stop) / scale        *)
(*   steps[i] = (g[i+1] - g[i]) / ((stop - start) / (n - 1))      linear   *)
(*   steps[i] = (g[i+1] / g[i]) / (stop / start)^(1/(n-1))        log      *)
(* so: first = last = 0 and every step = 1 up to tol; all finite.          *)
(***************************************************************************)
GridLawsClause(n, o, tol) ==
  IF o.len # n THEN "length"
  ELSE IF ~o.finite THEN "not-finite"
  ELSE IF ~Close(R(0), o.first, tol) THEN "first-is-start"
  ELSE IF n >= 2 /\ ~Close(R(0), o.last, tol) THEN "last-is-stop"
  ELSE IF ~o.increasing THEN "strictly-increasing"
  ELSE IF \E i \in DOMAIN o.steps : ~Close(R(1), o.steps[i], tol) THEN "equally-spaced"
  ELSE ""

(* ------------------------------------------------------------ discrete grids *)
\* category classes: dc |-> is it a dataclass; vals |-> field values in declaration order
\* (<<0,0>> stands for a non-numeric / missing value)
CategoryClasses ==
  [codes2   |-> [dc |-> TRUE,  vals |-> <<R(0), R(1)>>],
   codes3   |-> [dc |-> TRUE,  vals |-> <<R(0), R(1), R(2)>>],
   codes1   |-> [dc |-> TRUE,  vals |-> <<R(0)>>],
   floats   |-> [dc |-> TRUE,  vals |-> <<R(0), R(1), R(2)>>],
   bools    |-> [dc |-> TRUE,  vals |-> <<R(0), R(1)>>],
   gap      |-> [dc |-> TRUE,  vals |-> <<R(0), R(2)>>],
   permuted |-> [dc |-> TRUE,  vals |-> <<R(1), R(0)>>],
   dup      |-> [dc |-> TRUE,  vals |-> <<R(0), R(0)>>],
   from1    |-> [dc |-> TRUE,  vals |-> <<R(1), R(2)>>],
   negative |-> [dc |-> TRUE,  vals |-> <<R(-1), R(0)>>],
   half     |-> [dc |-> TRUE,  vals |-> <<R(0), <<1, 2>>, R(1)>>],
   \* anomalies in the INTERIOR of longer classes (first code 0 and last code n-1 are right)
   codes4   |-> [dc |-> TRUE,  vals |-> <<R(0), R(1), R(2), R(3)>>],
   codes5   |-> [dc |-> TRUE,  vals |-> <<R(0), R(1), R(2), R(3), R(4)>>],
   half_in  |-> [dc |-> TRUE,  vals |-> <<R(0), <<1, 2>>, R(2)>>],
   frac_in  |-> [dc |-> TRUE,  vals |-> <<R(0), R(1), <<5, 2>>, R(3)>>],
   nan_in   |-> [dc |-> TRUE,  vals |-> <<R(0), NaN, R(2)>>],
   swap_in  |-> [dc |-> TRUE,  vals |-> <<R(0), R(2), R(1), R(3)>>],
   dup_in   |-> [dc |-> TRUE,  vals |-> <<R(0), R(1), R(1), R(3)>>],
   skip_in  |-> [dc |-> TRUE,  vals |-> <<R(0), R(1), R(3), R(4)>>],
   inf_end  |-> [dc |-> TRUE,  vals |-> <<R(0), R(1), PosInf>>],
   nonnum   |-> [dc |-> TRUE,  vals |-> <<R(0), NaN>>],
   missing  |-> [dc |-> TRUE,  vals |-> <<R(0), NaN>>],
   \* pseudo-fields (typing.ClassVar, dataclasses.InitVar annotations) are not fields: vals lists the fields only
   classvar_valid   |-> [dc |-> TRUE, vals |-> <<R(0), R(1)>>],        \* + a ClassVar[str] constant declared first
   classvar_invalid |-> [dc |-> TRUE, vals |-> <<R(1), R(2)>>],        \* + a ClassVar[int] = 0 declared first
   initvar_trailing |-> [dc |-> TRUE, vals |-> <<R(0), R(1)>>],        \* + an InitVar[int] = 2 declared last
   plain    |-> [dc |-> FALSE, vals |-> <<R(0), R(1)>>],
   instance |-> [dc |-> TRUE,  vals |-> <<R(0), R(1)>>]]
\* accepted exactly when a dataclass whose field values are numerically 0, 1, 2, ...
DiscAccept(c) == c.dc /\ \A i \in DOMAIN c.vals : c.vals[i] = R(i - 1)
=============================================================================
