------------------------------- MODULE TraceKeys -------------------------------
(***************************************************************************)
(* Trace validation of the PRNG keys recorded by the hooks in              *)
(* lcm.simulate (`sim_keys', every run) and lcm.random_choice (`draw',     *)
(* eager runs) against module Keys (C04).  Every recorded event is an      *)
(* action of Keys; `val' binds the abstract keys (paths of the split tree) *)
(* to the recorded key data.  Property clauses, all on the recorded data:  *)
(*   seed-ignored        the first key is not PRNGKey(seed)                *)
(*   carry-chain-broken  the key entering period t+1 is not the key        *)
(*                       carried out of period t                           *)
(*   key-reuse           a key is consumed twice (split or drawn from)     *)
(*   key-shared          two different positions of the split tree (other  *)
(*                       period / variable / agent) hold the same key      *)
(*   draw-key            a variable does not draw with the key handed to   *)
(*                       it in that period                                 *)
(***************************************************************************)
EXTENDS Keys, Json, IOUtils, TLC

Cases == JsonDeserialize(IOEnv.CASES)
VARIABLES cid, l, verdict, val, used
tvars == <<cid, l, verdict, val, used, period, carry, varkeys, drawn, consumed, drawkeys>>
\*   val   path |-> recorded key (function);   used  recorded keys consumed so far
C == Cases[cid]
Ev == C.events[l]
Running == verdict[1] = "run"
Fail(clause, detail) == <<"FAIL", clause, detail>>
Injective(f) == \A a, b \in DOMAIN f : f[a] = f[b] => a = b

TInit == cid \in 1..Len(Cases) /\ l = 1 /\ verdict = <<"run">> /\ val = (<<>> :> C.root) /\ used = {} /\ KInit

\* sim_keys event: the period's split
TSplit ==
  /\ Running /\ l <= Len(C.events) /\ Ev.e = "sim_keys"
  /\ SplitPeriodN(Len(Ev.var_keys))
  /\ LET new == (Child(carry, 0) :> Ev.key_out) @@ [p \in {Child(carry, j) : j \in 1..Len(Ev.var_keys)} |-> Ev.var_keys[p[Len(p)]]]
         val2 == new @@ val
     IN /\ val' = val2
        /\ used' = used \cup {Ev.key_in}
        /\ verdict' =
             IF l = 1 /\ Ev.key_in # C.root THEN Fail("seed-ignored", ToString(<<"seed", C.seed, "first key", Ev.key_in, "PRNGKey(seed)", C.root>>))
             ELSE IF Ev.key_in # val[carry] THEN Fail("carry-chain-broken", ToString(<<"period", Ev.period, "key_in", Ev.key_in, "carried", val[carry]>>))
             ELSE IF Ev.key_in \in used THEN Fail("key-reuse", ToString(<<"period", Ev.period, Ev.key_in>>))
             ELSE IF ~Injective(val2) THEN Fail("key-shared", ToString(<<"period", Ev.period, "keys", Ev.key_out, Ev.var_keys>>))
             ELSE verdict
  /\ l' = l + 1 /\ UNCHANGED cid
\* draw event of variable j in the current period
TDraw ==
  /\ Running /\ l <= Len(C.events) /\ Ev.e = "draw"
  /\ DrawN(Ev.var, Len(Ev.agent_keys))
  /\ LET vk == varkeys[Ev.var]
         new == [p \in {Child(vk, i) : i \in 0..Len(Ev.agent_keys) - 1} |-> Ev.agent_keys[p[Len(p)] + 1]]
         val2 == new @@ val
         cons == {Ev.key} \cup {Ev.agent_keys[i] : i \in DOMAIN Ev.agent_keys}
     IN /\ val' = val2
        /\ used' = used \cup cons
        /\ verdict' =
             IF Ev.key # val[vk] THEN Fail("draw-key", ToString(<<"period", period, "variable", Ev.var, "key", Ev.key, "handed", val[vk]>>))
             ELSE IF cons \cap used # {} THEN Fail("key-reuse", ToString(<<"period", period, "variable", Ev.var, cons \cap used>>))
             ELSE IF Cardinality(cons) # Len(Ev.agent_keys) + 1 \/ ~Injective(val2)
                THEN Fail("key-shared", ToString(<<"period", period, "variable", Ev.var, Ev.agent_keys>>))
             ELSE verdict
  /\ l' = l + 1 /\ UNCHANGED cid
\* end of a period: all variables of the period have drawn (eager traces) or no draw was recorded (jitted traces)
TEnd ==
  /\ Running /\ l <= Len(C.events) /\ Ev.e = "end_period"
  /\ period' = period + 1 /\ varkeys' = <<>> /\ drawn' = {}
  /\ verdict' = IF C.eager /\ drawn # DOMAIN varkeys THEN Fail("missing-draw", ToString(<<"period", period, drawn>>)) ELSE verdict
  /\ l' = l + 1 /\ UNCHANGED <<cid, val, used, carry, consumed, drawkeys>>
TDone ==
  /\ Running /\ l > Len(C.events)
  /\ verdict' = (IF period # C.T THEN Fail("carry-chain-broken", "number of recorded periods") ELSE <<"ok">>)
  /\ UNCHANGED <<cid, l, val, used, period, carry, varkeys, drawn, consumed, drawkeys>>
TStuck ==
  /\ Running /\ l <= Len(C.events)
  /\ ~ENABLED TSplit /\ ~ENABLED TDraw /\ ~ENABLED TEnd
  /\ verdict' = Fail("not-a-keys-behaviour", ToString(<<l, Ev.e>>))
  /\ UNCHANGED <<cid, l, val, used, period, carry, varkeys, drawn, consumed, drawkeys>>
TNext == TSplit \/ TDraw \/ TEnd \/ TDone \/ TStuck
TSpec == TInit /\ [][TNext]_tvars
\* the abstract discipline holds along every validated trace as well
Report == (verdict[1] # "run") => PrintT(<<"VERDICT", ToJson([cid |-> C.cid, v |-> verdict, keys |-> Cardinality(DOMAIN val), consumed |-> Cardinality(used)])>>)
=============================================================================
