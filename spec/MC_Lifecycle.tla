------------------------------- MODULE MC_Lifecycle -------------------------------
(* All 2^8 sets of violated rules: the life-cycle machine rejects early or completes;
   Mode = "gen" prints the rule sets (with the stage the code base is expected to reject at). *)
EXTENDS Lifecycle, Json, IOUtils, SequencesExt
CONSTANT Mode
Dump == (Mode = "gen" /\ stage = 1 /\ outcome = "running") =>
  PrintT(<<"CASE", ToJson([rules |-> SetToSeq(rules), expected_stage |-> ExpectedStage(rules),
                           markers |-> [r \in rules \cap DOMAIN RuleMarker |-> RuleMarker[r]]])>>)
=============================================================================
