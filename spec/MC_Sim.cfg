CONSTANTS IndexerPeriod = "next" DenseSelect = "row" Horizons = {2} Betas <- BetasQuick Curvatures = {1} WithStochastic = {FALSE} Mask0Set <- SimMask0
SPECIFICATION Spec
INVARIANT ChoiceFeasibleAndMaximal
INVARIANT AgentIndependent
CHECK_DEADLOCK FALSE
