CONSTANTS IndexerPeriod = "next" DenseSelect = "row" Horizons = {2} Betas <- BetasQuick Curvatures = {1} WithStochastic = {TRUE} Mask0Set <- PanelMask0 Mask1Set <- PanelMask1Quick NAg = 2 Variant = "carry-not-advanced"
SPECIFICATION Spec
INVARIANT NoKeyReuse
CHECK_DEADLOCK FALSE
