CONSTANTS Mode = "mc"  MaxCells = 12
SPECIFICATION Spec
INVARIANT ImplSatisfiesDecl
INVARIANT IndexerIsRank
CHECK_DEADLOCK FALSE
