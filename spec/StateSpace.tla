------------------------------- MODULE StateSpace -------------------------------
(***************************************************************************)
(* The state-choice space of one period (lcm.state_space) and the axis     *)
(* layout of the value arrays (C05, C17).                                  *)
(*                                                                         *)
(* Two layers:                                                             *)
(*  - declarative: which combinations are in the space, what the layout    *)
(*    of a value array is -- in the words of the properties;               *)
(*  - implementation-shaped: the tables create_state_choice_space builds   *)
(*    (filter mask over the product of the sparse variables in canonical   *)
(*    order, combination grid = meshgrid[mask], state indexer = ranks with *)
(*    -1 fill, choice segments = repeat(arange, n_choices)).               *)
(* MC_StateSpace checks that the second layer satisfies the first for      *)
(* every mask.                                                             *)
(***************************************************************************)
EXTENDS Interp

(* ------------------------------------------------------------ declarative *)
\* sparse-variable assignment c (names -> indices) passes all filters in period t
PassFiltersIdx(M, t, c) ==
  LET env == [n \in DOMAIN c |-> GridVal(VarRec(M, n), c[n])] @@ ("_period" :> R(t))
  IN PassAll(M, "filter", env)

\* state combination s (all state names -> indices) is in the space of period t: it admits
\* at least one combination of the filter-restricted choices that passes all filters
InSpace(M, t, s) ==
  IF FuncsOfKind(M, "filter") = {} THEN TRUE
  ELSE LET sc == CanonSparseChoices(M)
           ss == NamesOf(CanonSparseStates(M))
       IN \E c \in IdxSet(sc) : PassFiltersIdx(M, t, [n \in ss |-> s[n]] @@ c)

(***************************************************************************)
(* Layout of the value array of period t (C05): first one axis enumerating *)
(* in row-major declaration order the admitted combinations of the         *)
(* filter-restricted states (only if there is such a state), then one axis *)
(* per unrestricted discrete state, then one per continuous state, each in *)
(* declaration order.                                                      *)
(***************************************************************************)
HasSparseStates(M) == CanonSparseStates(M) # <<>>
LayoutSeq(M) == CanonSparseStates(M) \o DenseDiscStates(M) \o ContStates(M)
DenseLayout(M) == DenseDiscStates(M) \o ContStates(M)
AdmittedSparse(M, t) ==       \* admitted restricted-state combinations in row-major order
  LET all == ProdOf(CanonSparseStates(M))
      dflt == [n \in StateNames(M) \ NamesOf(CanonSparseStates(M)) |-> 0]
  IN SelectSeq(all, LAMBDA s : InSpace(M, t, s @@ dflt))
Shape(M, t) ==
  (IF HasSparseStates(M) THEN <<Len(AdmittedSparse(M, t))>> ELSE <<>>)
  \o [i \in DOMAIN DenseLayout(M) |-> DenseLayout(M)[i].n]

\* markers inside value functions (never produced by arithmetic: denominator < 0)
Excl == <<0, -1>>      \* state is not in the space of that period
OOS  == <<0, -2>>      \* value undefined: a transition leads outside the space (out of scope)
IsMarker(x) == x[2] < 0

\* flatten a value function Vt : [IdxSet(StateSeq(M)) -> xrat \cup {Excl}] into lcm's layout
Flat(M, Vt) ==
  LET all == ProdOf(LayoutSeq(M))
  IN SelectSeq([k \in DOMAIN all |-> Vt[all[k]]], LAMBDA x : x # Excl)
\* and back: a flat row-major array in lcm's layout of period t -> value function
Unflat(M, t, flat) ==
  LET all  == ProdOf(LayoutSeq(M))
      keep == SelectSeq([k \in DOMAIN all |-> k], LAMBDA k : InSpace(M, t, all[k]))
  IN [s \in IdxSet(StateSeq(M)) |->
        IF InSpace(M, t, s)
        THEN flat[CHOOSE j \in DOMAIN keep : all[keep[j]] = s]
        ELSE Excl]
NumCells(M, t) == Len(SelectSeq(ProdOf(LayoutSeq(M)), LAMBDA s : InSpace(M, t, s)))

(* ------------------------------------------------------------ implementation-shaped *)
RECURSIVE SeqSum(_)
SeqSum(s) == IF s = <<>> THEN 0 ELSE Head(s) + SeqSum(Tail(s))
B2I(b) == IF b THEN 1 ELSE 0

(* Pure table versions: ss = sizes of the sparse states, cs = sizes of the sparse choices,
   m = the filter mask as a sequence of booleans aligned with Prod(ss \o cs). *)
Cells(ss, cs)  == Prod(ss \o cs)                    \* meshgrid(indexing="ij"), ravelled
NChoice(cs)    == Len(Prod(cs))
ImplCombos(ss, cs, m) ==                            \* meshgrid[mask]
  LET c == Cells(ss, cs)
      kept == SelectSeq([k \in DOMAIN c |-> k], LAMBDA k : m[k])
  IN [j \in DOMAIN kept |-> c[kept[j]]]
ImplFeasible(ss, cs, m) ==                          \* mask.any(axis = choice axes)
  [k \in DOMAIN Prod(ss) |-> \E j \in 1..NChoice(cs) : m[(k - 1) * NChoice(cs) + j]]
ImplIndexer(ss, cs, m) ==                           \* full(fill=-1); indexer[feasible] = arange
  LET f == ImplFeasible(ss, cs, m)
  IN [k \in DOMAIN f |-> IF f[k] THEN SeqSum([i \in 1..k |-> B2I(f[i])]) - 1 ELSE -1]
ImplSegments(ss, cs, m) ==                          \* repeat(arange(n_feasible), n_choices)
  LET f == ImplFeasible(ss, cs, m)
      rows == SelectSeq([k \in DOMAIN f |-> k], LAMBDA k : f[k])
      cnt(k) == SeqSum([j \in 1..NChoice(cs) |-> B2I(m[(k - 1) * NChoice(cs) + j])])
  IN FlattenSeq([r \in DOMAIN rows |-> [j \in 1..cnt(rows[r]) |-> r - 1]])
ImplNumSegments(ss, cs, m) == SeqSum([k \in DOMAIN ImplFeasible(ss, cs, m) |-> B2I(ImplFeasible(ss, cs, m)[k])])

(* The wording of C17 as a predicate over the tables. *)
Lex(a, b) == \E i \in DOMAIN a : a[i] < b[i] /\ \A j \in 1..i - 1 : a[j] = b[j]
DeclTablesOK(ss, cs, m, combos, indexer, segs, nseg) ==
  LET c == Cells(ss, cs)
      pass == {c[k] : k \in {k \in DOMAIN c : m[k]}}
      st(x) == SubSeq(x, 1, Len(ss))
      admitted == {st(x) : x \in pass}
      sts == Prod(ss)
      rank(s) == Cardinality({s2 \in admitted : Lex(s2, s)})
  IN /\ {combos[k] : k \in DOMAIN combos} = pass                      \* exactly the passing combinations
     /\ Len(combos) = Cardinality(pass)                               \* without duplicates
     /\ \A k \in 1..Len(combos) - 1 : Lex(combos[k], combos[k + 1])   \* row-major order
     /\ Len(indexer) = Len(sts)
     /\ \A k \in DOMAIN sts : indexer[k] = IF sts[k] \in admitted THEN rank(sts[k]) ELSE -1
     /\ Len(segs) = Len(combos)
     /\ \A k \in DOMAIN combos : segs[k] = rank(st(combos[k]))        \* segments group by rank
     /\ nseg = Cardinality(admitted)

(* The mask of a model: filters evaluated over the product of the sparse variables in
   canonical order (create_filter_mask). *)
(* ------------------------------------------------------------ forward mask (experimental in lcm) *)
(***************************************************************************)
(* create_forward_mask: which combinations of next-period state values are *)
(* reachable from a set of current state-choice rows.  sizes: grid sizes   *)
(* of the states (in grid order); rows: the current rows (name -> index);  *)
(* nxt[k]: <<>> if state k has no usable transition function (then every   *)
(* value of k is admitted), otherwise [args, tab] with the next index      *)
(* given by the table at the row's argument indices.                       *)
(***************************************************************************)
ForwardMask(sizes, rows, nxt) ==
  LET cells == Prod(sizes)
      reach(row, k) == Dig(nxt[k].tab, [i \in DOMAIN nxt[k].args |-> row[nxt[k].args[i]]])[1]
  IN [c \in DOMAIN cells |->
        \E r \in DOMAIN rows : \A k \in DOMAIN sizes : nxt[k].args = <<"-">> \/ cells[c][k] = reach(rows[r], k)]

MaskOf(M, t) ==
  LET cells == ProdOf(CanonSparse(M))
  IN [k \in DOMAIN cells |-> PassFiltersIdx(M, t, cells[k])]
SizesOf(vs) == [i \in DOMAIN vs |-> vs[i].n]
=============================================================================
