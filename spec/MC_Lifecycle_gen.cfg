CONSTANT Mode = "gen"
SPECIFICATION LSpec
INVARIANT Dump
CHECK_DEADLOCK FALSE
