------------------------------- MODULE Pipeline -------------------------------
(***************************************************************************)
(* The solve / simulate pipeline as a state machine at the grain of the    *)
(* code's two loops (lcm.solve_brute.solve: backward over periods;         *)
(* lcm.simulate.simulate: forward over periods), in terms of the           *)
(* declarative semantics of module Bellman.                                *)
(*                                                                         *)
(*   Vs      value functions solved so far, chronological: Vs[1] belongs to *)
(*           period t (the earliest solved one)                            *)
(*   t       next period to solve is t-1 (backward loop) / current period  *)
(*           of the forward loop                                           *)
(*   agents  current states of the simulated agents (sequence of           *)
(*           [state names -> xrat])                                        *)
(*   panel   rows produced so far: panel[t+1][i] = row of agent i in       *)
(*           period t                                                      *)
(*                                                                         *)
(* SolvePeriod is deterministic.  SimPeriod is nondeterministic: ties      *)
(* between maximisers and stochastic transitions are choices of the        *)
(* specification (every maximiser / every label of positive probability    *)
(* is allowed), which is what lets a recorded execution be checked without *)
(* pinning the tie rule or a PRNG stream.                                  *)
(***************************************************************************)
EXTENDS Bellman

(* ------------------------------------------------------------ backward loop *)
\* one iteration of the backward loop: Vs (for periods t..T-1) -> periods t-1..T-1
\* TLCEval: TLC evaluates functions lazily; the value function of a period must be tabulated once,
\* not recomputed at every look-up from the period before
SolveStep(M, t, Vs) == <<TLCEval(VStep(M, t - 1, IF Vs = <<>> THEN <<>> ELSE Vs[1]))>> \o Vs

(* ------------------------------------------------------------ forward loop *)
\* set of maximising feasible choice assignments at state values stEnv
ArgMaxSet(M, t, Vn, stEnv) ==
  LET best == FeasMax(M, t, Vn, stEnv)
  IN {c \in IdxSet(ChoiceSeq(M)) :
        LET env == EnvAt(M, stEnv, c, t) IN Feasible(M, env) /\ Q(M, t, Vn, env) = best}
\* set of possible next states after state/choice env
NextStateSet(M, env) ==
  LET sn  == StochNames(M)
  IN {NextDetGiven(M, env, l) @@ [st \in sn |-> R(l[st])] :
        l \in {l \in LabelCombos(M) : \A st \in sn : ShockRow(M, st, env)[l[st] + 1] # R(0)}}
\* a row of the panel
MkRow(M, t, Vn, stEnv, c) ==
  [state  |-> stEnv,
   choice |-> [n \in ChoiceNames(M) |-> GridVal(VarRec(M, n), c[n])],
   value  |-> FeasMax(M, t, Vn, stEnv)]
(***************************************************************************)
(* SimStepOK: rows are an admissible outcome of simulating period t for    *)
(* `agents', and `next' admissible successor states.  This is the          *)
(* transition relation of the forward loop; MC enumerates it, trace        *)
(* validation evaluates it on recorded rows (through Bellman!RowCheck,     *)
(* which is the same relation up to the rounding tolerance).               *)
(***************************************************************************)
SimStepOK(M, t, Vn, agents, rows, next) ==
  /\ Len(rows) = Len(agents)
  /\ \A i \in DOMAIN agents :
       /\ rows[i].state = agents[i]
       /\ \E c \in ArgMaxSet(M, t, Vn, agents[i]) : rows[i] = MkRow(M, t, Vn, agents[i], c)
       /\ t < M.T - 1 => next[i] \in NextStateSet(M, rows[i].state @@ rows[i].choice @@ ("_period" :> R(t)))

(* ------------------------------------------------------------ the panel (C13) *)
\* period-major index of a panel with T periods and N agents
PanelIndex(T, N) == [k \in 1..T * N |-> <<(k - 1) \div N, (k - 1) % N>>]
PanelColumns(M, targets) == {"value", "_period"} \cup StateNames(M) \cup ChoiceNames(M) \cup targets
B2R(b) == IF b THEN R(1) ELSE R(0)
\* value of an additional target at a row: the model function evaluated at the row's
\* states, choices, period and the parameters
TargetVal(M, name, env) ==
  IF FuncRec(M, name).kind \in {"constraint", "filter"} THEN B2R(CallF(M, name, env)) ELSE CallF(M, name, env)
=============================================================================
