CONSTANTS Mode = "mc" MaxCells = 6
SPECIFICATION Spec
INVARIANT ImplSatisfiesDecl
CHECK_DEADLOCK FALSE
