CONSTANTS IndexerPeriod = "next" Horizons = {1, 2, 3} Betas <- BetasAll Curvatures = {0, 1} WithStochastic = {FALSE, TRUE} Mask0Set <- Masks
SPECIFICATION Spec
INVARIANT ImplMatchesDecl
INVARIANT InfeasibleIffNegInf
INVARIANT ShapeIsLayout
CHECK_DEADLOCK FALSE
