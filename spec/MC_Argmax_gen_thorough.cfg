CONSTANTS Mode = "gen" MaxCells = 6
SPECIFICATION Spec
INVARIANT Dump
CHECK_DEADLOCK FALSE
