CONSTANTS Mode = "mc" MaxCells = 4
SPECIFICATION Spec
INVARIANT ImplSatisfiesDecl
CHECK_DEADLOCK FALSE
