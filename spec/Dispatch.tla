------------------------------- MODULE Dispatch -------------------------------
(***************************************************************************)
(* The vectorisation dispatchers (lcm.dispatchers: productmap, vmap_1d,    *)
(* spacemap) and the keyword/positional wrappers (lcm.functools), C19.     *)
(*                                                                         *)
(* A signature is a sequence of [name, kind] with kind in                  *)
(* {"pos" (positional-only), "any" (positional-or-keyword), "kw"           *)
(* (keyword-only)}.  The test function is                                  *)
(*     f(x_1, ..., x_n) = SUM_p 10^(p-1) * x_p     (p = position in the    *)
(* signature), which is injective on digits, so the value of an entry      *)
(* reveals which value was bound to which parameter.                       *)
(***************************************************************************)
EXTENDS Mdl

Pow10(p) == IF p = 0 THEN 1 ELSE IF p = 1 THEN 10 ELSE IF p = 2 THEN 100 ELSE IF p = 3 THEN 1000 ELSE IF p = 4 THEN 10000 ELSE 100000
SigNames(sig) == [i \in DOMAIN sig |-> sig[i].name]
PosOf(sig, nm) == CHOOSE i \in DOMAIN sig : sig[i].name = nm
\* the test function applied to a binding name -> integer
FVal(sig, bind) == FoldSet(LAMBDA i, acc : acc + Pow10(i - 1) * bind[sig[i].name], 0, DOMAIN sig)

(* ------------------------------------------------------------ declarative: nested loops over named arguments *)
(***************************************************************************)
(* productmap over the ordered list `mapped': the entry at (i_1..i_k) is f *)
(* applied to the i_1-th .. i_k-th elements of those arguments, all other  *)
(* arguments passed through; axes follow the order of `mapped'.            *)
(***************************************************************************)
ProductShape(mapped, arrays) == [k \in DOMAIN mapped |-> Len(arrays[mapped[k]])]
ProductEntry(sig, mapped, arrays, scalars, idx) ==
  FVal(sig, [nm \in ToSet(SigNames(sig)) |->
               IF \E k \in DOMAIN mapped : mapped[k] = nm
               THEN arrays[nm][idx[CHOOSE k \in DOMAIN mapped : mapped[k] = nm] + 1]
               ELSE scalars[nm]])
\* vmap_1d: the mapped arguments are paired
JointEntry(sig, joint, arrays, scalars, i) ==
  FVal(sig, [nm \in ToSet(SigNames(sig)) |-> IF nm \in ToSet(joint) THEN arrays[nm][i + 1] ELSE scalars[nm]])
\* spacemap: product over `dense', joint over `sparse'; the joint axis first or last
SpaceShape(dense, sparse, arrays, denseFirst) ==
  LET d == ProductShape(dense, arrays)
      s == IF sparse = <<>> THEN <<>> ELSE <<Len(arrays[sparse[1]])>>
  IN IF denseFirst THEN d \o s ELSE s \o d
SpaceEntry(sig, dense, sparse, arrays, scalars, denseFirst, idx) ==
  LET nd == Len(dense)
      di(k) == IF denseFirst \/ sparse = <<>> THEN idx[k] ELSE idx[k + 1]
      si == IF sparse = <<>> THEN 0 ELSE IF denseFirst THEN idx[nd + 1] ELSE idx[1]
  IN FVal(sig, [nm \in ToSet(SigNames(sig)) |->
                  IF \E k \in DOMAIN dense : dense[k] = nm THEN arrays[nm][di(CHOOSE k \in DOMAIN dense : dense[k] = nm) + 1]
                  ELSE IF nm \in ToSet(sparse) THEN arrays[nm][si + 1]
                  ELSE scalars[nm]])

(* ------------------------------------------------------------ implementation-shaped: iterated vmap *)
(***************************************************************************)
(* _base_productmap applies vmap once per mapped variable, in reversed     *)
(* order; each application adds a new LEADING axis for its variable.  The  *)
(* result is modelled as the list of axis owners, outermost first.         *)
(***************************************************************************)
RECURSIVE ImplAxes(_, _)
ImplAxes(revMapped, axesSoFar) ==
  IF revMapped = <<>> THEN axesSoFar
  ELSE ImplAxes(Tail(revMapped), <<Head(revMapped)>> \o axesSoFar)      \* vmap: new leading axis
ImplProductAxes(mapped) == ImplAxes(Reverse(mapped), <<>>)
\* spacemap: put_dense_first => vmap_1d first (inner), then the product (outer axes)
ImplSpaceAxes(dense, sparse, denseFirst) ==
  IF sparse = <<>> THEN ImplProductAxes(dense)
  ELSE IF denseFirst THEN ImplAxes(Reverse(dense), <<"__joint__">>)
  ELSE <<"__joint__">> \o ImplProductAxes(dense)

(* ------------------------------------------------------------ binding of calls (functools) *)
(***************************************************************************)
(* A call is [nargs |-> number of positional values, kw |-> sequence of    *)
(* keyword names in call order]; positional value j is the integer j, the  *)
(* value of keyword name nm is 5 + its position in the signature (so every *)
(* value is a distinct digit).  Bind* return Reject or the binding.      *)
(***************************************************************************)
Reject == ("__reject__" :> 0)
KwVal(sig, nm) == 4 + PosOf(sig, nm)
\* allow_only_kwargs: keyword arguments only, every parameter exactly once
BindOnlyKwargs(sig, call) ==
  IF call.nargs > 0 THEN Reject
  ELSE IF ToSet(call.kw) # ToSet(SigNames(sig)) \/ Len(call.kw) # Len(sig) THEN Reject
  ELSE [nm \in ToSet(SigNames(sig)) |-> KwVal(sig, nm)]
\* allow_args: positional values bind the first parameters, keywords bind by name;
\* missing, unexpected or doubly bound parameters are rejected
BindAllowArgs(sig, call) ==
  LET posNames == {sig[i].name : i \in 1..call.nargs}
  IN IF call.nargs > Len(sig) THEN Reject
     ELSE IF \E k \in DOMAIN call.kw : call.kw[k] \notin ToSet(SigNames(sig)) THEN Reject
     ELSE IF ToSet(call.kw) \cap posNames # {} THEN Reject
     ELSE IF Cardinality(ToSet(call.kw)) # Len(call.kw) THEN Reject
     ELSE IF call.nargs + Len(call.kw) # Len(sig) THEN Reject
     ELSE [nm \in ToSet(SigNames(sig)) |-> IF PosOf(sig, nm) <= call.nargs THEN PosOf(sig, nm) ELSE KwVal(sig, nm)]
=============================================================================
