------------------------------- MODULE KeysInd -------------------------------
(***************************************************************************)
(* Unbounded safety of the PRNG key discipline (C04), for Apalache.        *)
(*                                                                         *)
(* The split tree that lcm.simulate builds has a special shape: a spine of *)
(* carried keys (child 0 of child 0 of ...), the variable keys hanging off *)
(* the spine (child j >= 1 of the key carried into period m) and the agent *)
(* keys below them (child i of a variable key).  A key is coded by         *)
(*     <<m, 0>>      the key carried INTO period m        (path 0^m)       *)
(*     <<m, j>>      the key of variable j in period m    (path 0^m j)     *)
(* and the agent keys of <<m, j>> (paths 0^m j i, 0 <= i < NAgents) are    *)
(* consumed together with <<m, j>> by one Draw action; distinct codes are  *)
(* distinct paths.  (Module Keys uses the paths themselves; its bounded    *)
(* instances are checked by TLC in MC_Keys.)                               *)
(*                                                                         *)
(* With NPeriods, NVars, NAgents ARBITRARY, Apalache proves that IndInv is *)
(* inductive (Init => IndInv; IndInv /\ Next => IndInv') and it contains   *)
(* NoKeyReuse: no key is ever the parent of two splits or used for two     *)
(* draws -- for every horizon, number of stochastic variables and agents.  *)
(***************************************************************************)
EXTENDS Integers, FiniteSets, Apalache

CONSTANTS
  \* @type: Int;
  NPeriods,
  \* @type: Int;
  NVars,
  \* @type: Int;
  NAgents

VARIABLES
  \* @type: Int;
  period,
  \* @type: Bool;
  split,           \* has the carried key of this period been split?
  \* @type: Set(Int);
  drawn,
  \* @type: Set(<<Int, Int>>);
  consumed

ConstInit == NPeriods \in Nat /\ NVars \in Nat /\ NAgents \in Nat /\ NPeriods >= 1 /\ NAgents >= 1

Init == period = 0 /\ split = FALSE /\ drawn = {} /\ consumed = {}

SplitPeriod ==
  /\ period < NPeriods /\ ~split
  /\ consumed' = consumed \union {<<period, 0>>}
  /\ split' = TRUE
  /\ UNCHANGED <<period, drawn>>
Draw(j) ==
  /\ split /\ j >= 1 /\ j <= NVars /\ j \notin drawn
  /\ consumed' = consumed \union {<<period, j>>}          \* and with it its NAgents agent keys
  /\ drawn' = drawn \union {j}
  /\ UNCHANGED <<period, split>>
EndPeriod ==
  /\ split /\ Cardinality(drawn) = NVars
  /\ period' = period + 1 /\ split' = FALSE /\ drawn' = {}
  /\ UNCHANGED consumed
Next == SplitPeriod \/ (\E j \in Nat : Draw(j)) \/ EndPeriod

\* linearity: the key about to be consumed has not been consumed before
CarryFresh == (~split /\ period < NPeriods) => <<period, 0>> \notin consumed
VarFresh(j) == (split /\ j >= 1 /\ j <= NVars /\ j \notin drawn) => <<period, j>> \notin consumed

IndInv ==
  /\ period >= 0 /\ period <= NPeriods
  /\ \A j \in drawn : j >= 1 /\ j <= NVars
  /\ (~split => drawn = {})
  /\ (split => period < NPeriods)
  /\ \A k \in consumed :
        /\ k[1] >= 0 /\ k[1] <= period
        /\ k[2] >= 0 /\ k[2] <= NVars
        /\ (k[1] = period /\ k[2] = 0) => split
        /\ (k[1] = period /\ k[2] >= 1) => (split /\ k[2] \in drawn)
  /\ CarryFresh

\* an arbitrary state satisfying IndInv (sets of bounded size: the invariant speaks about single elements)
IndInit ==
  /\ period \in Int /\ split \in BOOLEAN /\ drawn = Gen(4) /\ consumed = Gen(6)
  /\ IndInv

\* the property proper, implied by IndInv in every state (checked as an invariant from IndInit as well)
NoKeyReuse == CarryFresh /\ \A k \in consumed : ~(split /\ k[1] = period /\ k[2] >= 1 /\ k[2] \notin drawn)
=============================================================================
