#!/bin/bash
# Apalache: IndInv is an inductive invariant of the key discipline for arbitrary NPeriods, NVars, NAgents,
# and it implies NoKeyReuse.  (Own scratch directory per invocation: concurrent runs must not share or remove it.)
cd "$(dirname "$0")" || exit 2
set -e
out=$(mktemp -d /tmp/apa-keys.XXXXXX)
trap 'rm -rf "$out"' EXIT
timeout 600 apalache-mc check --cinit=ConstInit --init=Init --inv=IndInv --length=0 --out-dir="$out" KeysInd.tla | grep -E "EXITCODE|error|Error"
timeout 900 apalache-mc check --cinit=ConstInit --init=IndInit --inv=IndInv --length=1 --out-dir="$out" KeysInd.tla | grep -E "EXITCODE|error|Error"
timeout 900 apalache-mc check --cinit=ConstInit --init=IndInit --inv=NoKeyReuse --length=0 --out-dir="$out" KeysInd.tla | grep -E "EXITCODE|error|Error"
