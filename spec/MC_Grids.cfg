CONSTANT Mode = "mc"
SPECIFICATION Spec
INVARIANT TableConsistent
CHECK_DEADLOCK FALSE
