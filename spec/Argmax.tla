------------------------------- MODULE Argmax -------------------------------
(***************************************************************************)
(* The arg-max primitives (lcm.argmax) and the reduction of conditional    *)
(* continuation values over discrete choices (lcm.discrete_problem), C18.  *)
(*                                                                         *)
(* An n-dimensional array is a flat sequence in row-major order together   *)
(* with its shape; axes are numbered from 0.                               *)
(***************************************************************************)
EXTENDS Mdl

(* ------------------------------------------------------------ indexing *)
SizeOf(shape) == Len(Prod(shape))
\* flat (1-based) position of a 0-based index tuple
RECURSIVE FlatPos(_, _)
FlatPos(idx, shape) ==
  IF idx = <<>> THEN 1
  ELSE (idx[1] * SizeOf(Tail(shape))) + FlatPos(Tail(idx), Tail(shape))
At(a, shape, idx) == a[FlatPos(idx, shape)]

FrontAxes(shape, axes) == SelectSeq([i \in 1..Len(shape) |-> i - 1], LAMBDA ax : \A k \in DOMAIN axes : axes[k] # ax)
SubShape(shape, axs) == [k \in DOMAIN axs |-> shape[axs[k] + 1]]
\* full index from an index o over the front axes and an index c over the reduced axes
Combine(shape, front, axes, o, c) ==
  [i \in 1..Len(shape) |->
     IF \E k \in DOMAIN front : front[k] = i - 1
     THEN o[CHOOSE k \in DOMAIN front : front[k] = i - 1]
     ELSE c[CHOOSE k \in DOMAIN axes : axes[k] = i - 1]]

(* ------------------------------------------------------------ declarative clause (the property) *)
(***************************************************************************)
(* For the slice of output position o: the candidates are the index tuples *)
(* over the reduced axes, enumerated row-major in the order the axes were  *)
(* listed; j is 0-based in that enumeration.                               *)
(* ArgmaxOK: the reported position is unmasked, its value equals the       *)
(* masked maximum, no earlier unmasked position has that value; if         *)
(* everything is masked the position is 0 and the maximum is `initial'.    *)
(***************************************************************************)
Cands(shape, axes) == Prod(SubShape(shape, axes))
SliceVal(a, shape, front, axes, o, j)  == At(a, shape, Combine(shape, front, axes, o, Cands(shape, axes)[j + 1]))
SliceMask(w, hasW, shape, front, axes, o, j) ==
  IF hasW THEN At(w, shape, Combine(shape, front, axes, o, Cands(shape, axes)[j + 1])) ELSE TRUE
MaskedMax(a, w, hasW, shape, front, axes, o, initial) ==
  LET n == Len(Cands(shape, axes))
  IN RMaxOver({j \in 0..n - 1 : SliceMask(w, hasW, shape, front, axes, o, j)},
              LAMBDA j : SliceVal(a, shape, front, axes, o, j))
\* RMaxOver starts from -inf, which is also the `initial' lcm passes whenever it passes a mask
ArgmaxOKAt(a, w, hasW, shape, axes, o, p, mx, tol) ==
  LET front == FrontAxes(shape, axes)
      n == Len(Cands(shape, axes))
      unm == {j \in 0..n - 1 : SliceMask(w, hasW, shape, front, axes, o, j)}
      m == MaskedMax(a, w, hasW, shape, front, axes, o, NegInf)
  IN IF unm = {} THEN p = 0 /\ mx = NegInf
     ELSE /\ p \in unm
          /\ Close(m, SliceVal(a, shape, front, axes, o, p), tol)
          /\ Close(m, mx, tol)
          /\ (tol = R(0) => \A j \in unm : j < p => SliceVal(a, shape, front, axes, o, j) # m)   \* first on exact ties
\* which clause fails (for the verdict)
ArgmaxClause(a, w, hasW, shape, axes, o, p, mx, tol) ==
  LET front == FrontAxes(shape, axes)
      n == Len(Cands(shape, axes))
      unm == {j \in 0..n - 1 : SliceMask(w, hasW, shape, front, axes, o, j)}
      m == MaskedMax(a, w, hasW, shape, front, axes, o, NegInf)
  IN IF unm = {} THEN (IF p # 0 \/ mx # NegInf THEN "all-masked" ELSE "")
     ELSE IF p \notin 0..n - 1 THEN "position"
     ELSE IF p \notin unm THEN "position-masked"
     ELSE IF ~Close(m, SliceVal(a, shape, front, axes, o, p), tol) THEN "not-maximal"
     ELSE IF ~Close(m, mx, tol) THEN "max"
     ELSE IF tol = R(0) /\ \E j \in unm : j < p /\ SliceVal(a, shape, front, axes, o, j) = m THEN "first-on-tie"
     ELSE ""

(* ------------------------------------------------------------ implementation-shaped argmax *)
(***************************************************************************)
(* lcm.argmax.argmax: transpose the reduced axes to the back (in the order *)
(* listed), flatten them, max over the last axis with where/initial,       *)
(* mask = (a == max) & where, index of the first TRUE (0 if none).         *)
(***************************************************************************)
ImplArgmaxAt(a, w, hasW, shape, axes, o) ==
  LET front == FrontAxes(shape, axes)
      n == Len(Cands(shape, axes))
      mx == MaskedMax(a, w, hasW, shape, front, axes, o, NegInf)
      hit == {j \in 0..n - 1 : SliceVal(a, shape, front, axes, o, j) = mx /\ SliceMask(w, hasW, shape, front, axes, o, j)}
  IN <<IF hit = {} THEN 0 ELSE CHOOSE j \in hit : \A k \in hit : j <= k, mx>>

(* ------------------------------------------------------------ segment arg-max *)
(***************************************************************************)
(* data: shape <<n>> \o rest, segments: lengths of consecutive groups of   *)
(* rows.  For every segment s and trailing position c the reported row     *)
(* lies in segment s and attains the segment maximum.                      *)
(***************************************************************************)
SegStart(lens, s) == FoldSet(LAMBDA i, acc : acc + lens[i], 0, 1..s - 1)       \* 0-based first row of segment s (1-based s)
SegRows(lens, s) == SegStart(lens, s)..SegStart(lens, s) + lens[s] - 1
SegMax(data, shape, lens, s, c) == RMaxOver(SegRows(lens, s), LAMBDA r : At(data, shape, <<r>> \o c))
SegArgmaxClause(data, shape, lens, s, c, row, mx, tol) ==
  IF row \notin SegRows(lens, s) THEN "segment-row"
  ELSE IF ~Close(SegMax(data, shape, lens, s, c), At(data, shape, <<row>> \o c), tol) THEN "not-maximal"
  ELSE IF ~Close(SegMax(data, shape, lens, s, c), mx, tol) THEN "max"
  ELSE ""

(* ------------------------------------------------------------ reduction over discrete choices *)
(***************************************************************************)
(* cc: conditional continuation values with axes <<rows?>> \o dense        *)
(* variables (isChoice[i] tells whether dense axis i is a choice);         *)
(* result: for every state (segment of rows x dense state indices) the     *)
(* maximum over all rows of the segment and all dense choice indices.      *)
(***************************************************************************)
ReduceSpec(cc, shape, hasRows, isChoice, lens, s, st) ==
  \* s: segment (1-based; 1 if no rows), st: index tuple over the dense state axes
  LET off == IF hasRows THEN 1 ELSE 0
      daxes == [i \in 1..Len(isChoice) |-> i - 1 + off]
      chAxes == SelectSeq(daxes, LAMBDA ax : isChoice[ax - off + 1])
      stAxes == SelectSeq(daxes, LAMBDA ax : ~isChoice[ax - off + 1])
      chIdx == Prod(SubShape(shape, chAxes))
      rows == IF hasRows THEN SegRows(lens, s) ELSE {0}
      full(r, ci) == [i \in 1..Len(shape) |->
                        IF hasRows /\ i = 1 THEN r
                        ELSE IF \E k \in DOMAIN chAxes : chAxes[k] = i - 1 THEN ci[CHOOSE k \in DOMAIN chAxes : chAxes[k] = i - 1]
                        ELSE st[CHOOSE k \in DOMAIN stAxes : stAxes[k] = i - 1]]
  IN RMaxOver(rows \X DOMAIN chIdx, LAMBDA rc : At(cc, shape, full(rc[1], chIdx[rc[2]])))
=============================================================================
