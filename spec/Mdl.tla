------------------------------- MODULE Mdl -------------------------------
(***************************************************************************)
(* The model description (MDL) and everything lcm derives from a user      *)
(* model before any number is computed (lcm.input_processing):             *)
(*   - classification of functions by name and of variables by use,        *)
(*   - the canonical variable order,                                       *)
(*   - the expression language and the way arguments of model functions    *)
(*     are resolved (variable / other model function / parameter stored    *)
(*     under the function's own name),                                     *)
(*   - the parameter template.                                             *)
(*                                                                         *)
(* A model M is a record (read from JSON by the trace specifications or    *)
(* built by the MC_* modules):                                             *)
(*   M.T      number of periods                                            *)
(*   M.vars   sequence, in declaration order (states among themselves and  *)
(*            choices among themselves), of                                *)
(*            [name, role: "state"|"choice", kind: "disc"|"lin"|"log",     *)
(*             n, start, stop, nodes]                                      *)
(*   M.funcs  sequence, in declaration order, of                           *)
(*            [name, kind: "utility"|"aux"|"next"|"stoch"|"constraint"     *)
(*             |"filter", args: sequence of names, expr, state]            *)
(*   M.params [beta, <function name> : [<param> : xrat], shocks : ...]     *)
(***************************************************************************)
EXTENDS Integers, Sequences, FiniteSets, TLC, XRat, FiniteSetsExt, SequencesExt

(* ------------------------------------------------------------ lookups *)
VarRec(M, name)  == M.vars[CHOOSE i \in DOMAIN M.vars : M.vars[i].name = name]
FuncRec(M, name) == M.funcs[CHOOSE i \in DOMAIN M.funcs : M.funcs[i].name = name]
FuncNames(M) == {M.funcs[i].name : i \in DOMAIN M.funcs}
VarNames(M)  == {M.vars[i].name : i \in DOMAIN M.vars}
NamesOf(vs)  == {vs[i].name : i \in DOMAIN vs}
StateSeq(M)  == SelectSeq(M.vars, LAMBDA v : v.role = "state")
ChoiceSeq(M) == SelectSeq(M.vars, LAMBDA v : v.role = "choice")
StateNames(M)  == NamesOf(StateSeq(M))
ChoiceNames(M) == NamesOf(ChoiceSeq(M))
FuncsOfKind(M, k) == {M.funcs[i].name : i \in {j \in DOMAIN M.funcs : M.funcs[j].kind = k}}
IsDisc(v) == v.kind = "disc"
IsCont(v) == v.kind # "disc"

(* stochastic states *)
StochNames(M) == {M.funcs[i].state : i \in {j \in DOMAIN M.funcs : M.funcs[j].kind = "stoch"}}
StochFunc(M, st) ==
  M.funcs[CHOOSE i \in DOMAIN M.funcs : M.funcs[i].kind = "stoch" /\ M.funcs[i].state = st]

(* ------------------------------------------------------------ grids *)
\* value of grid node i (0-based).  Discrete grids are their codes 0..n-1;
\* a linear grid is equally spaced between start and stop; a log grid is
\* given by its nodes (a geometric progression, see Grids!IsGeometric).
GridVal(v, i) ==
  IF v.kind = "disc" THEN R(i)
  ELSE IF v.kind = "lin" THEN
       IF v.n = 1 THEN v.start
       ELSE RAdd(v.start, RMul(R(i), RDiv(RSub(v.stop, v.start), R(v.n - 1))))
  ELSE v.nodes[i + 1]
GridSeq(v) == [i \in 1..v.n |-> GridVal(v, i - 1)]
IsOnGrid(v, x) == \E i \in 0..v.n - 1 : GridVal(v, i) = x
GridIdx(v, x)  == CHOOSE i \in 0..v.n - 1 : GridVal(v, i) = x

\* all index assignments of a sequence of variables
MaxN(vs) == Max({vs[i].n : i \in DOMAIN vs} \cup {1})

\* row-major enumeration of index tuples of given sizes (numpy order "C" /
\* meshgrid(indexing="ij").ravel())
RECURSIVE Prod(_)
Prod(sizes) ==
  IF sizes = <<>> THEN << <<>> >>
  ELSE LET rest == Prod(Tail(sizes))
       IN FlattenSeq([i \in 1..Head(sizes) |-> [j \in DOMAIN rest |-> <<i - 1>> \o rest[j]]])
\* the same as assignments name -> index for a sequence of variable records
ProdOf(vs) ==
  LET tuples == Prod([i \in DOMAIN vs |-> vs[i].n])
  IN [k \in DOMAIN tuples |-> [nm \in NamesOf(vs) |->
         tuples[k][CHOOSE i \in DOMAIN vs : vs[i].name = nm]]]
\* all index assignments name -> 0..n-1 (as a set; built from the product, so that models with many small variables stay cheap:
\* filtering the function space [names -> 0..max-1] is exponential in the number of variables)
IdxSet(vs) == LET all == ProdOf(vs) IN {all[k] : k \in DOMAIN all}

(* ------------------------------------------------------------ expressions *)
RECURSIVE Dig(_, _)
Dig(arr, idxs) == IF idxs = <<>> THEN arr ELSE Dig(arr[Head(idxs) + 1], Tail(idxs))

RECURSIVE Eval(_, _)
Eval(e, loc) ==
  CASE e[1] = "const" -> e[2]
    [] e[1] = "var"   -> loc[e[2]]
    [] e[1] = "add"   -> RAdd(Eval(e[2], loc), Eval(e[3], loc))
    [] e[1] = "sub"   -> RSub(Eval(e[2], loc), Eval(e[3], loc))
    [] e[1] = "mul"   -> RMul(Eval(e[2], loc), Eval(e[3], loc))
    [] e[1] = "min"   -> RMin(Eval(e[2], loc), Eval(e[3], loc))
    [] e[1] = "max"   -> RMax(Eval(e[2], loc), Eval(e[3], loc))
    [] e[1] = "le"    -> RLe(Eval(e[2], loc), Eval(e[3], loc))
    [] e[1] = "lt"    -> RLt(Eval(e[2], loc), Eval(e[3], loc))
    [] e[1] = "eq"    -> Eval(e[2], loc) = Eval(e[3], loc)
    [] e[1] = "and"   -> Eval(e[2], loc) /\ Eval(e[3], loc)
    [] e[1] = "or"    -> Eval(e[2], loc) \/ Eval(e[3], loc)
    [] e[1] = "not"   -> ~Eval(e[2], loc)
    [] e[1] = "ite"   -> IF Eval(e[2], loc) THEN Eval(e[3], loc) ELSE Eval(e[4], loc)
    \* sum of the operands, written in Python as a reduction over a stacked array
    [] e[1] = "ssum"  -> RSum(2..Len(e), LAMBDA i : Eval(e[i], loc))
    \* table look-up: e[2] = names of integer-valued arguments, e[3] = nested table
    [] e[1] = "tab"   -> Dig(e[3], [i \in DOMAIN e[2] |-> loc[e[2][i]][1]])

(***************************************************************************)
(* Calling a model function the way lcm does (dags.concatenate_functions + *)
(* the `params' wrapper of process_model): an argument that is a model     *)
(* variable or `_period' gets that value; an argument that is the name of  *)
(* another model function gets that function's value (recursively); every  *)
(* other argument is a parameter and is looked up under the *calling       *)
(* function's own name*, so equal parameter names in different functions   *)
(* never interact (C07).                                                   *)
(***************************************************************************)
RECURSIVE CallF(_, _, _)
ArgVal(M, fname, a, env) ==
  IF a \in DOMAIN env THEN env[a]
  ELSE IF a \in FuncNames(M) THEN CallF(M, a, env)
  ELSE M.params[fname][a]
CallF(M, fname, env) ==
  LET f == FuncRec(M, fname)
      loc == [a \in ToSet(f.args) |-> ArgVal(M, fname, a, env)]
  IN Eval(f.expr, loc)

PassAll(M, kind, env) == \A f \in FuncsOfKind(M, kind) : CallF(M, f, env)

(* ------------------------------------------------------------ classification *)
\* model variables a function depends on, directly or through other functions
RECURSIVE Anc(_, _)
Anc(M, fname) ==
  UNION {IF a \in VarNames(M) THEN {a} ELSE IF a \in FuncNames(M) THEN Anc(M, a) ELSE {}
         : a \in ToSet(FuncRec(M, fname).args)}
\* model functions a function depends on, itself included
RECURSIVE FuncAnc(_, _)
FuncAnc(M, fname) ==
  {fname} \cup UNION {IF a \in FuncNames(M) THEN FuncAnc(M, a) ELSE {} : a \in ToSet(FuncRec(M, fname).args)}
\* does the value of function f depend on the period?
RECURSIVE UsesPeriod(_, _)
UsesPeriod(M, fname) ==
  \E a \in ToSet(FuncRec(M, fname).args) : a = "_period" \/ (a \in FuncNames(M) /\ UsesPeriod(M, a))

\* sparse (filter-restricted) variables: ancestors of some filter
SparseNames(M) == UNION {Anc(M, f) : f \in FuncsOfKind(M, "filter")}
\* auxiliary states: states that occur in transition functions only (lcm issue #30)
NonNextFuncs(M) == FuncNames(M) \ (FuncsOfKind(M, "next") \cup FuncsOfKind(M, "stoch"))
AuxStates(M) == StateNames(M) \ UNION {Anc(M, f) : f \in NonNextFuncs(M)}

(***************************************************************************)
(* Canonical variable order (input_processing.util.get_variable_info):     *)
(* sparse states, sparse choices, dense discrete states, dense discrete    *)
(* choices, dense continuous states, dense continuous choices -- each      *)
(* group in declaration order.                                             *)
(***************************************************************************)
Canon(M) ==
  LET sp == SparseNames(M)
      ss == StateSeq(M)
      cs == ChoiceSeq(M)
  IN SelectSeq(ss, LAMBDA v : v.name \in sp) \o SelectSeq(cs, LAMBDA v : v.name \in sp)
     \o SelectSeq(ss, LAMBDA v : v.name \notin sp /\ IsDisc(v))
     \o SelectSeq(cs, LAMBDA v : v.name \notin sp /\ IsDisc(v))
     \o SelectSeq(ss, LAMBDA v : v.name \notin sp /\ IsCont(v))
     \o SelectSeq(cs, LAMBDA v : v.name \notin sp /\ IsCont(v))
CanonSparse(M)       == SelectSeq(Canon(M), LAMBDA v : v.name \in SparseNames(M))
CanonSparseStates(M) == SelectSeq(CanonSparse(M), LAMBDA v : v.role = "state")
CanonSparseChoices(M) == SelectSeq(CanonSparse(M), LAMBDA v : v.role = "choice")
DenseDiscStates(M)   == SelectSeq(Canon(M), LAMBDA v : v.name \notin SparseNames(M) /\ IsDisc(v) /\ v.role = "state")
DenseDiscChoices(M)  == SelectSeq(Canon(M), LAMBDA v : v.name \notin SparseNames(M) /\ IsDisc(v) /\ v.role = "choice")
ContStates(M)        == SelectSeq(Canon(M), LAMBDA v : IsCont(v) /\ v.role = "state")
ContChoices(M)       == SelectSeq(Canon(M), LAMBDA v : IsCont(v) /\ v.role = "choice")

(* ------------------------------------------------------------ environments *)
EnvOfIdx(M, s, c, t) ==
  [n \in StateNames(M)  |-> GridVal(VarRec(M, n), s[n])] @@
  [n \in ChoiceNames(M) |-> GridVal(VarRec(M, n), c[n])] @@ ("_period" :> R(t))
StateEnv(M, s) == [n \in StateNames(M) |-> GridVal(VarRec(M, n), s[n])]

(* ------------------------------------------------------------ parameter template (C07) *)
\* free arguments of a model function = its parameters
FreeArgs(M, fname) == ToSet(FuncRec(M, fname).args) \ (VarNames(M) \cup FuncNames(M) \cup {"_period"})
\* shape of the transition array of stochastic state st: sizes of the dependencies in
\* *signature order* (number of periods for `_period'), then the number of labels
ShockShape(M, st) ==
  LET f == StochFunc(M, st)
  IN [i \in DOMAIN f.args |-> IF f.args[i] = "_period" THEN M.T ELSE VarRec(M, f.args[i]).n]
     \o <<VarRec(M, st).n>>
Template(M) ==
  [keys   |-> {"beta"} \cup FuncNames(M) \cup (IF StochNames(M) = {} THEN {} ELSE {"shocks"}),
   funcs  |-> [f \in FuncNames(M) |-> FreeArgs(M, f)],
   shocks |-> [st \in StochNames(M) |-> ShockShape(M, st)]]

(* ------------------------------------------------------------ static scope of C01/C02 *)
\* "" when the model is inside the scope the properties quantify over, otherwise the reason
StaticScope(M) ==
  IF AuxStates(M) # {} THEN "state-only-in-transition"
  ELSE IF FuncsOfKind(M, "filter") # {} /\ \A f \in FuncsOfKind(M, "filter") : Anc(M, f) \cap StateNames(M) = {}
     THEN "filters-without-state"        \* restricted choices but no restricted state (known finding D15)
  ELSE IF \E f \in FuncsOfKind(M, "filter") : \E v \in Anc(M, f) : IsCont(VarRec(M, v)) THEN "filter-on-continuous"
  ELSE ""
=============================================================================
