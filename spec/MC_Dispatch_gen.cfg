CONSTANTS Mode = "gen" MaxParams = 3 MaxCallParams = 3
SPECIFICATION Spec
INVARIANT Dump
CHECK_DEADLOCK FALSE
