------------------------------- MODULE MC_Solve -------------------------------
(***************************************************************************)
(* Model checking of the backward induction: for every model of a family   *)
(* defined here, the implementation-shaped machine of module Solve         *)
(* (combination grid, state indexer of the next period, segments, ccv axes,*)
(* function representation with interpolation) computes in every period    *)
(* exactly the declarative Bellman solution of module Bellman.             *)
(*                                                                         *)
(* Family: restricted state r (2 labels) and restricted choice a (2) with  *)
(* a filter mask that may differ between period 0 and the later periods,   *)
(* an unrestricted discrete choice b, a continuous state w and a           *)
(* continuous choice c on 3-point grids with the budget constraint c <= w, *)
(* quadratic utility in c with interactions, next_w = w - c + b (leaves    *)
(* the grid: extrapolation), next_r = a table into the admitted states;    *)
(* optionally a stochastic unrestricted state h whose row depends on       *)
(* (b, h).  Parameters: both masks, the curvature uc, beta, the horizon.   *)
(***************************************************************************)
EXTENDS Solve

CONSTANTS Horizons, Betas, Curvatures, WithStochastic, Mask0Set

C(n) == <<"const", <<n, 1>>>>
V(x) == <<"var", x>>
Var(name, role, kind, n, lo, hi) ==
  [name |-> name, role |-> role, kind |-> kind, n |-> n, start |-> <<lo, 1>>, stop |-> <<hi, 1>>, nodes |-> <<>>]
Fn(name, kind, args, expr) == [name |-> name, kind |-> kind, args |-> args, expr |-> expr, state |-> ""]

\* mask tables: m0 for period 0, m1 for the later periods; entries indexed [period][r][a]
MaskTab(m0, m1, T) ==
  [p \in 1..T |-> LET m == IF p = 1 THEN m0 ELSE m1 IN <<<<m[1], m[2]>>, <<m[3], m[4]>>>>]
Admitted(m) == {r \in 0..1 : m[2 * r + 1] \/ m[2 * r + 2]}
\* next_r: stay if admitted next period, otherwise move to the smallest admitted state of the next period
NextRTab(m0, m1, T) ==
  [p \in 1..T |-> LET nxt == m1
                      tgt(r) == IF r \in Admitted(nxt) THEN r ELSE CHOOSE x \in Admitted(nxt) : \A y \in Admitted(nxt) : x <= y
                  IN <<<<R(tgt(0)), R(tgt(0))>>, <<R(tgt(1)), R(tgt(1))>>>>]

FamModel(T, beta, uc, m0, m1, stoch) ==
  [T |-> T,
   vars |-> <<Var("w", "state", "lin", 3, 0, 2), Var("r", "state", "disc", 2, 0, 0)>>
            \o (IF stoch THEN <<Var("h", "state", "disc", 2, 0, 0)>> ELSE <<>>)
            \o <<Var("b", "choice", "disc", 2, 0, 0), Var("a", "choice", "disc", 2, 0, 0), Var("c", "choice", "lin", 3, 0, 2)>>,
   funcs |-> <<Fn("utility", "utility", <<"c", "w", "r", "a", "b", "_period">> \o (IF stoch THEN <<"h">> ELSE <<>>),
                  <<"add", <<"mul", V("c"), <<"sub", C(uc + 2), V("c")>>>>,
                    <<"add", <<"mul", V("r"), V("w")>>,
                      <<"add", <<"sub", <<"mul", C(2), V("a")>>, V("b")>>,
                        IF stoch THEN <<"add", V("_period"), <<"mul", V("h"), V("b")>>>> ELSE V("_period")>>>>>>),
               Fn("next_w", "next", <<"w", "c", "b">>, <<"add", <<"sub", V("w"), V("c")>>, V("b")>>),
               Fn("next_r", "next", <<"r", "a", "_period">>, <<"tab", <<"_period", "r", "a">>, NextRTab(m0, m1, T)>>),
               Fn("bc_constraint", "constraint", <<"c", "w">>, <<"le", V("c"), V("w")>>),
               Fn("m_filter", "filter", <<"a", "r", "_period">>, <<"tab", <<"_period", "r", "a">>, MaskTab(m0, m1, T)>>)>>
             \o (IF stoch THEN <<[name |-> "next_h", kind |-> "stoch", args |-> <<"b", "h">>, expr |-> C(0), state |-> "h"]>> ELSE <<>>),
   params |-> [beta |-> beta, utility |-> <<>>, next_w |-> <<>>, next_r |-> <<>>, bc_constraint |-> <<>>, m_filter |-> <<>>,
               next_h |-> <<>>,
               shocks |-> [h |-> << << <<<<1, 2>>, <<1, 2>>>>, <<<<0, 1>>, <<1, 1>>>> >>,
                                    << <<<<1, 4>>, <<3, 4>>>>, <<<<1, 1>>, <<0, 1>>>> >> >>]]]

Masks == {m \in [1..4 -> BOOLEAN] : Admitted(m) # {}}
BetasQuick == {<<1, 2>>}
BetasAll == {<<1, 2>>, <<1, 1>>}
\* quick: period-0 masks that exclude a state or a choice
QuickMask0 == {m \in Masks : Cardinality({i \in 1..4 : m[i]}) <= 2}

VARIABLES par, t, Vimpl, Vdecl
vars == <<par, t, Vimpl, Vdecl>>
M == FamModel(par.T, par.beta, par.uc, par.m0, par.m1, par.stoch)
Init ==
  /\ par \in [T : Horizons, beta : Betas, uc : Curvatures, m0 : Mask0Set, m1 : Masks, stoch : WithStochastic]
  /\ t = par.T /\ Vimpl = <<>> /\ Vdecl = <<>>
SolvePeriod ==
  /\ t > 0
  /\ Vdecl' = TLCEval(VStep(M, t - 1, Vdecl))
  /\ Vimpl' = TLCEval(ImplStep(M, t - 1, Vimpl))
  /\ t' = t - 1 /\ UNCHANGED par
Spec == Init /\ [][SolvePeriod]_vars

\* in every solved period the implementation-shaped array is the declarative solution
ImplMatchesDecl ==
  (t < par.T /\ ScopeOfV(M, Vdecl) = "") => ImplEqualsDecl(M, t, Vimpl, Vdecl)
\* a state's value is -inf exactly when no choice passes all filters and constraints
InfeasibleIffNegInf ==
  t < par.T => \A s \in IdxSet(StateSeq(M)) :
     InSpace(M, t, s) =>
       ((Vdecl[s] = NegInf) <=> ~\E c \in IdxSet(ChoiceSeq(M)) : Feasible(M, EnvAt(M, StateEnv(M, s), c, t)))
\* the shape of the implementation-shaped array is the layout of C05
ShapeIsLayout ==
  t < par.T => Cardinality(DOMAIN Vimpl) = NumCells(M, t)
=============================================================================
