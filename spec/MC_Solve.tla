------------------------------- MODULE MC_Solve -------------------------------
(***************************************************************************)
(* Model checking of the backward induction: for every model of a family   *)
(* defined here, the implementation-shaped machine of module Solve         *)
(* (combination grid, state indexer of the next period, segments, ccv axes,*)
(* function representation with interpolation) computes in every period    *)
(* exactly the declarative Bellman solution of module Bellman.             *)
(*                                                                         *)
(* Family: restricted state r (2 labels) and restricted choice a (2) with  *)
(* a filter mask that may differ between period 0 and the later periods,   *)
(* an unrestricted discrete choice b, a continuous state w and a           *)
(* continuous choice c on 3-point grids with the budget constraint c <= w, *)
(* quadratic utility in c with interactions, next_w = w - c + b (leaves    *)
(* the grid: extrapolation), next_r = a table into the admitted states;    *)
(* optionally a stochastic unrestricted state h whose row depends on       *)
(* (b, h).  Parameters: both masks, the curvature uc, beta, the horizon.   *)
(***************************************************************************)
EXTENDS Solve, Family

CONSTANTS Horizons, Betas, Curvatures, WithStochastic, Mask0Set

VARIABLES par, t, Vimpl, Vdecl
vars == <<par, t, Vimpl, Vdecl>>
M == FamModel(par.T, par.beta, par.uc, par.m0, par.m1, par.stoch)
Init ==
  /\ par \in [T : Horizons, beta : Betas, uc : Curvatures, m0 : Mask0Set, m1 : Masks, stoch : WithStochastic]
  /\ t = par.T /\ Vimpl = <<>> /\ Vdecl = <<>>
SolvePeriod ==
  /\ t > 0
  /\ Vdecl' = TLCEval(VStep(M, t - 1, Vdecl))
  /\ Vimpl' = TLCEval(ImplStep(M, t - 1, Vimpl))
  /\ t' = t - 1 /\ UNCHANGED par
Spec == Init /\ [][SolvePeriod]_vars
\* liveness: the backward loop terminates with all periods solved
FairSpec == Spec /\ WF_vars(SolvePeriod)
AllPeriodsSolved == <>(t = 0)

\* in every solved period the implementation-shaped array is the declarative solution
ImplMatchesDecl ==
  (t < par.T /\ ScopeOfV(M, Vdecl) = "") => ImplEqualsDecl(M, t, Vimpl, Vdecl)
\* a state's value is -inf exactly when no choice passes all filters and constraints
InfeasibleIffNegInf ==
  t < par.T => \A s \in IdxSet(StateSeq(M)) :
     InSpace(M, t, s) =>
       ((Vdecl[s] = NegInf) <=> ~\E c \in IdxSet(ChoiceSeq(M)) : Feasible(M, EnvAt(M, StateEnv(M, s), c, t)))
\* the shape of the implementation-shaped array is the layout of C05
ShapeIsLayout ==
  t < par.T => Cardinality(DOMAIN Vimpl) = NumCells(M, t)
=============================================================================
