CONSTANTS Mode = "gen"  MaxCells = 12
SPECIFICATION Spec
INVARIANT DumpCase
CHECK_DEADLOCK FALSE
