CONSTANTS IndexerPeriod = "current" DenseSelect = "row" Horizons = {2} Betas <- BetasQuick Curvatures = {1} WithStochastic = {TRUE} Mask0Set <- QuickMask0 Mask1Set <- Masks NAg = 2 Variant = "code"
SPECIFICATION Spec
INVARIANT SolutionIsBellman
CHECK_DEADLOCK FALSE
