CONSTANTS IndexerPeriod = "current" Horizons = {2} Betas <- BetasQuick Curvatures = {1} WithStochastic = {FALSE} Mask0Set <- QuickMask0
SPECIFICATION Spec
INVARIANT ImplMatchesDecl
CHECK_DEADLOCK FALSE
