------------------------------- MODULE MC_Panel -------------------------------
(***************************************************************************)
(* The whole forward loop of lcm.simulate.simulate as one state machine,   *)
(* composed from the implementation-shaped period of module Simulate, the  *)
(* key discipline of module Keys and the panel of module Pipeline, and     *)
(* model-checked against the declarative transition relation               *)
(* Pipeline!SimStepOK (C02, C03, C04, C08, C13 at design level, over       *)
(* several periods and over every stochastic branch):                      *)
(*                                                                         *)
(*   Decide      create_data_scs, continuous / dense / sparse arg-max,     *)
(*               selection through the optimal row, indices -> values;     *)
(*               the period's rows are appended to the results             *)
(*   SplitKeys   _generate_simulation_keys: the carried key is split into  *)
(*               the new carried key and one key per stochastic variable   *)
(*               (in EVERY period, the last one included -- the code       *)
(*               computes the next states of the last period and drops     *)
(*               them)                                                     *)
(*   Draw(j)     random_choice for stochastic variable j: its key is split *)
(*               over the agents, every agent draws a label that has       *)
(*               positive probability in the row selected by ITS OWN       *)
(*               period-t state and choice                                 *)
(*   Advance     next_state: deterministic transitions evaluated at the    *)
(*               agent's own row, stochastic states replaced by the drawn  *)
(*               labels; the period ends                                   *)
(*   Frame       _process_simulated_data / _as_data_frame: period-major    *)
(*               concatenation, index (period, agent), column _period      *)
(*                                                                         *)
(* The value arrays come from the implementation-shaped backward loop      *)
(* (Solve!ImplStep), the judge uses the declarative ones (Bellman!VDecl).  *)
(***************************************************************************)
EXTENDS Pipeline, Simulate, Family

CONSTANTS Horizons, Betas, Curvatures, WithStochastic, Mask0Set, Mask1Set, NAg,
          Variant     \* "code" | negative controls: "carry-not-advanced" (the carried key is split but not replaced),
                      \* "agent-major" (the frame concatenates agent by agent)

VARIABLES par, Vimpl, Vdecl, pc, p, agents, init, rows, results, labels, frame,
          period, carry, varkeys, drawn, consumed, drawkeys
kv == <<period, carry, varkeys, drawn, consumed, drawkeys>>
vars == <<par, Vimpl, Vdecl, pc, p, agents, init, rows, results, labels, frame, kv>>

K == INSTANCE Keys WITH NPeriods <- 3, NVars <- 1, NAgents <- NAg

M == FamModel(par.T, par.beta, par.uc, par.m0, par.m1, par.stoch)
Stoch == SetToSeq(StochNames(M))          \* the stochastic variables, numbered 1..nStoch
NStoch == Len(Stoch)

\* both backward loops, run to completion (chronological sequences, index t + 1)
RECURSIVE ImplFrom(_, _), DeclFrom(_, _)
ImplFrom(Mo, t) == LET rest == IF t = Mo.T - 1 THEN <<>> ELSE ImplFrom(Mo, t + 1)
                   IN <<TLCEval(ImplStep(Mo, t, IF rest = <<>> THEN <<>> ELSE rest[1]))>> \o rest
DeclFrom(Mo, t) == LET rest == IF t = Mo.T - 1 THEN <<>> ELSE DeclFrom(Mo, t + 1)
                   IN <<TLCEval(VStep(Mo, t, IF rest = <<>> THEN <<>> ELSE rest[1]))>> \o rest
VnImpl == IF p >= par.T - 1 THEN <<>> ELSE Vimpl[p + 2]
VnDeclAt(q) == IF q >= par.T - 1 THEN <<>> ELSE Vdecl[q + 2]

\* candidate initial states: w on a node, inside a cell, above the grid range
WVals == {<<0, 1>>, <<1, 2>>, <<5, 2>>}
AgentStates ==
  {[w |-> w, r |-> R(r)] @@ (IF par.stoch THEN [h |-> R(h)] ELSE <<>>) :
      w \in WVals, r \in Admitted(par.m0), h \in (IF par.stoch THEN {0, 1} ELSE {0})}
Batches == IF NAg = 1 THEN {<<a>> : a \in AgentStates}
           ELSE {<<a1, a2>> : a1 \in {a \in AgentStates : a.w # <<1, 2>>}, a2 \in AgentStates}

\* quick: one period-0 mask that excludes a choice, two later masks (a state excluded; a choice excluded)
PanelMask0 == {<<TRUE, FALSE, TRUE, TRUE>>}
PanelMask1 == {<<TRUE, TRUE, FALSE, FALSE>>, <<FALSE, TRUE, TRUE, TRUE>>}
PanelMask1Quick == {<<FALSE, TRUE, TRUE, TRUE>>}

Init ==
  /\ par \in [T : Horizons, beta : Betas, uc : Curvatures, m0 : Mask0Set, m1 : Mask1Set, stoch : WithStochastic]
  /\ Vimpl = TLCEval(ImplFrom(M, 0)) /\ Vdecl = TLCEval(DeclFrom(M, 0))
  /\ agents \in Batches /\ init = agents
  /\ pc = "decide" /\ p = 0 /\ rows = <<>> /\ results = <<>> /\ labels = <<>> /\ frame = <<>>
  /\ K!KInit

Decide ==
  /\ pc = "decide"
  /\ rows' = TLCEval(SimPeriodImpl(M, p, VnImpl, agents))
  /\ results' = Append(results, [i \in DOMAIN agents |-> [state |-> agents[i], choice |-> rows'[i].choice, value |-> rows'[i].value]])
  /\ pc' = "keys"
  /\ UNCHANGED <<par, Vimpl, Vdecl, p, agents, init, labels, frame, kv>>

SplitKeys ==
  /\ pc = "keys"
  /\ IF Variant = "carry-not-advanced"
     THEN /\ varkeys = <<>> /\ consumed' = consumed \cup {carry} /\ carry' = carry
          /\ varkeys' = [j \in 1..NStoch |-> K!Child(carry, j)] /\ UNCHANGED <<period, drawn, drawkeys>>
     ELSE K!SplitPeriodN(NStoch)
  /\ labels' = [j \in 1..NStoch |-> <<>>]
  /\ pc' = IF NStoch = 0 THEN "advance" ELSE "draw"
  /\ UNCHANGED <<par, Vimpl, Vdecl, p, agents, init, rows, results, frame>>

RowEnvOf(i) == agents[i] @@ rows[i].choice @@ ("_period" :> R(p))
Draw(j) ==
  /\ pc = "draw"
  /\ K!DrawN(j, Len(agents))
  /\ \E l \in [DOMAIN agents -> 0..VarRec(M, Stoch[j]).n - 1] :
        /\ \A i \in DOMAIN agents : ShockRow(M, Stoch[j], RowEnvOf(i))[l[i] + 1] # R(0)
        /\ labels' = [labels EXCEPT ![j] = l]
  /\ pc' = IF drawn' = 1..NStoch THEN "advance" ELSE "draw"
  /\ UNCHANGED <<par, Vimpl, Vdecl, p, agents, init, rows, results, frame>>

Advance ==
  /\ pc = "advance"
  /\ K!EndPeriodN(NStoch)
  /\ agents' = [i \in DOMAIN agents |->
                  LET li == [st \in StochNames(M) |-> labels[CHOOSE j \in 1..NStoch : Stoch[j] = st][i]]
                  IN NextDetGiven(M, RowEnvOf(i), li) @@ [st \in StochNames(M) |-> R(li[st])]]
  /\ p' = p + 1
  /\ pc' = IF p = par.T - 1 THEN "frame" ELSE "decide"
  /\ UNCHANGED <<par, Vimpl, Vdecl, init, rows, results, labels, frame>>

Frame ==
  /\ pc = "frame"
  /\ frame' = [k \in 1..par.T * Len(init) |->
                 LET t == IF Variant = "agent-major" THEN (k - 1) % par.T ELSE (k - 1) \div Len(init)
                     i == IF Variant = "agent-major" THEN (k - 1) \div par.T ELSE (k - 1) % Len(init)
                 IN [idx |-> <<t, i>>, per |-> t, row |-> results[t + 1][i + 1]]]
  /\ pc' = "done"
  /\ UNCHANGED <<par, Vimpl, Vdecl, p, agents, init, rows, results, labels, kv>>

Next == Decide \/ SplitKeys \/ (\E j \in 1..NStoch : Draw(j)) \/ Advance \/ Frame
Spec == Init /\ [][Next]_vars
FairSpec == Spec /\ WF_vars(Next)

(* ------------------------------------------------------------ properties *)
InScope == \A q \in DOMAIN Vdecl : ScopeOfV(M, Vdecl[q]) = ""
\* the implementation-shaped value arrays are the declarative solution (C01), for the whole horizon
SolutionIsBellman == (pc = "decide" /\ p = 0 /\ InScope) => \A q \in DOMAIN Vdecl : ImplEqualsDecl(M, q - 1, Vimpl[q], Vdecl[q])
\* C02 + C03: every completed period is an admissible step of the declarative forward loop
StepsAdmissible ==
  (InScope /\ pc \in {"decide", "frame"}) => \A q \in {p - 1} \cap Nat :
     q + 1 \in DOMAIN results =>
       SimStepOK(M, q, VnDeclAt(q), [i \in DOMAIN init |-> results[q + 1][i].state], results[q + 1],
                 IF q + 2 \in DOMAIN results THEN [i \in DOMAIN init |-> results[q + 2][i].state] ELSE agents)
\* the current period's decisions (made, not yet advanced) are feasible maximisers
DecisionsAdmissible ==
  (InScope /\ pc = "keys") =>
     \A i \in DOMAIN agents :
        \E c \in ArgMaxSet(M, p, VnDeclAt(p), agents[i]) : results[p + 1][i] = MkRow(M, p, VnDeclAt(p), agents[i], c)
\* C08: every decision equals the decision of the same agent simulated alone
AgentIndependent ==
  (InScope /\ pc = "keys") =>
     \A i \in DOMAIN agents : SimPeriodImpl(M, p, VnImpl, <<agents[i]>>)[1] = rows[i]
\* C03: period 0 holds the supplied initial states
Period0IsInitial == results # <<>> => \A i \in DOMAIN init : results[1][i].state = init[i]
\* C13: complete, period-major panel
PanelComplete ==
  pc = "done" =>
    /\ Len(frame) = par.T * Len(init)
    /\ \A k \in DOMAIN frame : frame[k].idx = PanelIndex(par.T, Len(init))[k] /\ frame[k].per = frame[k].idx[1]
    /\ \A k \in DOMAIN frame : frame[k].row = results[frame[k].idx[1] + 1][frame[k].idx[2] + 1]
    /\ \A t \in 0..par.T - 2, i \in DOMAIN init :
         RowMotion(M, t, results[t + 1][i], results[t + 2][i]) = ""
\* C04: key discipline along the whole run
NoKeyReuse ==
  /\ pc = "keys" => carry \notin consumed
  /\ \A j \in 1..NStoch : (pc = "draw" /\ j \notin drawn) => varkeys[j] \notin consumed
DrawKeysDistinct == K!DrawKeysDistinct
Period0DecidedBeforeAnyKey == (p = 0 /\ pc \in {"decide", "keys"}) => consumed = {}
\* every agent draws exactly once per period and stochastic variable, in every period
EveryDrawHappened ==
  pc = "done" => \A t \in 0..par.T - 1, j \in 1..NStoch, i \in 0..Len(init) - 1 :
                    Cardinality({d \in drawkeys : d[2] = t /\ d[3] = j /\ d[4] = i}) = 1
\* liveness: the loop produces the frame
Terminates == <>(pc = "done")
=============================================================================
