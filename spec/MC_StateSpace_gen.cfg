CONSTANTS Mode = "gen"  MaxCells = 9
SPECIFICATION Spec
INVARIANT DumpCase
CHECK_DEADLOCK FALSE
