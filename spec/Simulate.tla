------------------------------- MODULE Simulate -------------------------------
(***************************************************************************)
(* Implementation-shaped model of one period of lcm.simulate.simulate for  *)
(* a batch of agents, with the data structures of the code:                *)
(*                                                                         *)
(*   data rows     create_data_scs: the product agents x combinations of   *)
(*                 the filter-restricted choices (states repeated, choice  *)
(*                 combinations tiled), all filters evaluated at the       *)
(*                 agent's own state, passing rows kept in order; segment  *)
(*                 id of a row = its agent                                 *)
(*   ccv, policy   per row and per combination of the unrestricted         *)
(*                 discrete choices: max and FIRST arg-max (row-major) of  *)
(*                 utility + beta E[V] over the product of the continuous  *)
(*                 choice grids under the constraint mask                  *)
(*   dense arg-max per row: FIRST maximiser over the unrestricted discrete *)
(*                 choices                                                 *)
(*   sparse arg-max per agent: LAST row of its segment attaining the       *)
(*                 segment maximum (segment_argmax)                        *)
(*   selection     the continuous AND the dense arg-max of the optimal     *)
(*                 row; indices -> grid values                             *)
(*                                                                         *)
(* DenseSelect = "row" is the code; "segment" reproduces the defect        *)
(* repaired in /repo (D3: the dense arg-max was indexed by the agent       *)
(* number instead of by the optimal row).                                  *)
(* MC_Sim checks that the selected choices are feasible maximisers of the  *)
(* declarative objective and the value is the maximum (C02), for agents on *)
(* and off the grid.                                                       *)
(***************************************************************************)
EXTENDS Solve

CONSTANT DenseSelect          \* "row" | "segment"

(* ------------------------------------------------------------ data state-choice space *)
SparseChoiceCombos(M) == ProdOf(CanonSparseChoices(M))      \* dict_product: meshgrid "ij" over the restricted choices
\* rows: <<agent i (1-based), combination k (index into SparseChoiceCombos)>>, agent-major
DataRows(M, t, agents) ==
  LET combos == SparseChoiceCombos(M)
      K == Len(combos)
      all == [x \in 1..Len(agents) * K |-> <<((x - 1) \div K) + 1, ((x - 1) % K) + 1>>]
      pass(ik) == LET env == agents[ik[1]] @@ [n \in DOMAIN combos[ik[2]] |-> GridVal(VarRec(M, n), combos[ik[2]][n])]
                                  @@ ("_period" :> R(t))
                  IN PassAll(M, "filter", env)
  IN IF CanonSparseChoices(M) = <<>> THEN [i \in DOMAIN agents |-> <<i, 1>>]      \* one row per agent, no segments
     ELSE SelectSeq(all, pass)

(* ------------------------------------------------------------ continuous problem per row and dense choice *)
DenseChoiceIdx(M) == ProdOf(DenseDiscChoices(M))
ContChoiceIdx(M) == ProdOf(ContChoices(M))
RowEnv(M, t, agents, row, d) ==
  LET combos == SparseChoiceCombos(M)
  IN agents[row[1]]
     @@ [n \in DOMAIN combos[row[2]] |-> GridVal(VarRec(M, n), combos[row[2]][n])]
     @@ [n \in DOMAIN d |-> GridVal(VarRec(M, n), d[n])] @@ ("_period" :> R(t))
ContEnv(M, c) == [n \in DOMAIN c |-> GridVal(VarRec(M, n), c[n])]
\* <<first maximising index (0-based, row-major), maximum>>; <<0, -inf>> if every continuous choice is infeasible
CcvPolicy(M, t, Vnext, envDisc) ==
  LET cs == ContChoiceIdx(M)
      feas == {j \in DOMAIN cs : PassAll(M, "constraint", envDisc @@ ContEnv(M, cs[j]))}
      val(j) == BigU(M, t, Vnext, envDisc @@ ContEnv(M, cs[j]))
      mx == RMaxOver(feas, val)
      hit == {j \in feas : val(j) = mx}
  IN <<IF hit = {} THEN 0 ELSE (CHOOSE j \in hit : \A k \in hit : j <= k) - 1, mx>>

(***************************************************************************)
(* One simulated period, implementation-shaped.  Result: for every agent   *)
(* [choice : all choice names -> grid values, value].                      *)
(***************************************************************************)
SimPeriodImpl(M, t, Vnext, agents) ==
  LET rows == DataRows(M, t, agents)
      ds == DenseChoiceIdx(M)
      pol == TLCEval([r \in DOMAIN rows |-> [j \in DOMAIN ds |-> CcvPolicy(M, t, Vnext, RowEnv(M, t, agents, rows[r], ds[j]))]])
      \* argmax over the dense axes: first maximiser
      rowMax(r) == RMaxOver(DOMAIN ds, LAMBDA j : pol[r][j][2])
      denseArg(r) == CHOOSE j \in DOMAIN ds : pol[r][j][2] = rowMax(r) /\ \A k \in DOMAIN ds : pol[r][k][2] = rowMax(r) => j <= k
      \* segment_argmax: last row of the agent's segment attaining the segment maximum
      seg(i) == {r \in DOMAIN rows : rows[r][1] = i}
      segMax(i) == RMaxOver(seg(i), rowMax)
      sparseArg(i) == CHOOSE r \in seg(i) : rowMax(r) = segMax(i) /\ \A q \in seg(i) : rowMax(q) = segMax(i) => q <= r
      combos == SparseChoiceCombos(M)
      cs == ContChoiceIdx(M)
  IN [i \in DOMAIN agents |->
        LET r == sparseArg(i)
            \* the code (after the repair): dense arg-max of the optimal row; the former defect: of row number i
            jd == IF DenseSelect = "row" \/ CanonSparseChoices(M) = <<>> THEN denseArg(r)
                  ELSE denseArg(IF i \in DOMAIN rows THEN i ELSE Len(rows))
            jc == pol[r][denseArg(r)][1] + 1
        IN [choice |-> [n \in DOMAIN combos[rows[r][2]] |-> GridVal(VarRec(M, n), combos[rows[r][2]][n])]
                       @@ [n \in DOMAIN ds[jd] |-> GridVal(VarRec(M, n), ds[jd][n])]
                       @@ ContEnv(M, cs[jc]),
            value |-> segMax(i)]]

\* every agent has at least one filter-passing row (otherwise the batch is outside the supported inputs)
BatchSupported(M, t, agents) ==
  \A i \in DOMAIN agents : \E r \in DOMAIN DataRows(M, t, agents) : DataRows(M, t, agents)[r][1] = i
=============================================================================
