CONSTANTS Mode = "gen" MaxCells = 4
SPECIFICATION Spec
INVARIANT Dump
CHECK_DEADLOCK FALSE
