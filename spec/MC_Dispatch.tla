------------------------------- MODULE MC_Dispatch -------------------------------
(***************************************************************************)
(* Small-scope exhaustive enumeration for C19:                             *)
(*  "map"  cases: every signature of up to MaxParams parameters with every *)
(*         legal pattern of parameter kinds (positional-only prefix,       *)
(*         keyword-only suffix) x every ordered subset of mapped names     *)
(*         split into a product part and a joint part;                     *)
(*  "call" cases: every signature of up to MaxCallParams parameters x      *)
(*         every number of positional values x every ordered subset of     *)
(*         keyword names (one unexpected name included).                   *)
(* Invariants: the axis order produced by iterated vmap (implementation-   *)
(* shaped) is the order in which the names were listed (declarative); a    *)
(* call is either rejected or binds every parameter exactly once.          *)
(* Mode = "gen" prints the cases for replay into the real dispatchers.     *)
(***************************************************************************)
EXTENDS Dispatch, Json, IOUtils
CONSTANTS Mode, MaxParams, MaxCallParams

AllNames == <<"a", "b", "c", "d", "e">>
Kinds(n) == {k \in [1..n -> {"pos", "any", "kw"}] :
               \A i \in 1..n - 1 : (k[i] = "any" => k[i + 1] # "pos") /\ (k[i] = "kw" => k[i + 1] = "kw")}
SigOf(n, k) == [i \in 1..n |-> [name |-> AllNames[i], kind |-> k[i]]]
\* ordered subsets (sequences without repetition) of a set of names
OrderedSubsets(S) == UNION {{s \in [1..m -> S] : \A i, j \in 1..m : i # j => s[i] # s[j]} : m \in 0..Cardinality(S)}

VARIABLES kind, sig, product, joint, call, done
vars == <<kind, sig, product, joint, call, done>>

InitMap ==
  /\ kind = "map"
  /\ \E n \in 1..MaxParams : \E k \in Kinds(n) : sig = SigOf(n, k)
  /\ \E m \in OrderedSubsets(ToSet(SigNames(sig))) : \E cut \in 0..Len(m) :
        /\ product = SubSeq(m, 1, cut)
        /\ joint = SubSeq(m, cut + 1, Len(m))
  /\ call = [nargs |-> 0, kw |-> <<>>]
InitCall ==
  /\ kind = "call"
  /\ \E n \in 1..MaxCallParams : \E k \in Kinds(n) : sig = SigOf(n, k)
  /\ product = <<>> /\ joint = <<>>
  /\ \E na \in 0..Len(sig) + 1 : \E kw \in OrderedSubsets(ToSet(SigNames(sig)) \cup {"zz"}) :
        call = [nargs |-> na, kw |-> kw]
Init == (InitMap \/ InitCall) /\ done = FALSE
Step == ~done /\ done' = TRUE /\ UNCHANGED <<kind, sig, product, joint, call>>
Spec == Init /\ [][Step]_vars

AxisOrderIsListedOrder ==
  (done /\ kind = "map") =>
     /\ ImplProductAxes(product) = product
     /\ ImplSpaceAxes(product, joint, TRUE) = product \o (IF joint = <<>> THEN <<>> ELSE <<"__joint__">>)
     /\ ImplSpaceAxes(product, joint, FALSE) = (IF joint = <<>> THEN <<>> ELSE <<"__joint__">>) \o product
BindingIsTotalOrRejected ==
  (done /\ kind = "call") =>
     /\ LET b == BindAllowArgs(sig, call)
        IN b = Reject \/ (DOMAIN b = ToSet(SigNames(sig)) /\ Cardinality({b[nm] : nm \in DOMAIN b}) = Len(sig))
     /\ LET b == BindOnlyKwargs(sig, call)
        IN b = Reject \/ (call.nargs = 0 /\ DOMAIN b = ToSet(SigNames(sig)))
Dump == (Mode = "gen" /\ ~done) =>
  PrintT(<<"CASE", ToJson([kind |-> kind, sig |-> sig, product |-> product, joint |-> joint, call |-> call])>>)
=============================================================================
