CONSTANTS IndexerPeriod = "next" DenseSelect = "segment" Horizons = {2} Betas <- BetasQuick Curvatures = {1} WithStochastic = {FALSE} Mask0Set <- SimMask0 Mask1Set <- PanelMask1Quick NAg = 2 Variant = "code"
SPECIFICATION Spec
INVARIANT DecisionsAdmissible
CHECK_DEADLOCK FALSE
