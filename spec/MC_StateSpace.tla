------------------------------- MODULE MC_StateSpace -------------------------------
(***************************************************************************)
(* Model checking of the state-choice-space tables (C17): for EVERY filter *)
(* mask over the listed shapes of restricted states x restricted choices,  *)
(* the implementation-shaped tables of module StateSpace (meshgrid[mask],  *)
(* any over choice axes, ranks with -1 fill, repeat(arange, n_choices))    *)
(* satisfy the declarative wording of the property.                        *)
(* With Mode = "gen" the same state space is printed as JSON cases which   *)
(* the harness replays into lcm.state_space.create_state_choice_space.     *)
(***************************************************************************)
EXTENDS StateSpace, Json, IOUtils

CONSTANTS Mode, MaxCells

Shapes == { <<<<2>>, <<2>>>>, <<<<3>>, <<2>>>>, <<<<2>>, <<3>>>>, <<<<2, 2>>, <<2>>>>, <<<<2>>, <<2, 2>>>>,
            <<<<3>>, <<3>>>>, <<<<2, 2>>, <<3>>>>, <<<<2, 3>>, <<2>>>>, <<<<3>>, <<2, 2>>>>, <<<<2, 2, 2>>, <<>> >>,
            <<<<4>>, <<3>>>> }
NCellsOf(sh) == Len(Cells(sh[1], sh[2]))

VARIABLES shape, mask, built
vars == <<shape, mask, built>>

Init == /\ shape \in {sh \in Shapes : NCellsOf(sh) <= MaxCells}
        /\ mask \in [1..NCellsOf(shape) -> BOOLEAN]
        /\ built = FALSE
Build == /\ ~built /\ built' = TRUE /\ UNCHANGED <<shape, mask>>
Next == Build
Spec == Init /\ [][Next]_vars

\* the implementation-shaped tables satisfy the property's wording, for every mask
ImplSatisfiesDecl ==
  built => LET ss == shape[1]  cs == shape[2]
           IN DeclTablesOK(ss, cs, mask, ImplCombos(ss, cs, mask), ImplIndexer(ss, cs, mask),
                           ImplSegments(ss, cs, mask), ImplNumSegments(ss, cs, mask))
\* the flat value-array layout is consistent with the indexer: the rank of an admitted state
\* is its position among the admitted states in row-major order
IndexerIsRank ==
  built => LET ss == shape[1]  cs == shape[2]
               idx == ImplIndexer(ss, cs, mask)
               adm == SelectSeq([k \in DOMAIN idx |-> k], LAMBDA k : idx[k] >= 0)
           IN \A j \in DOMAIN adm : idx[adm[j]] = j - 1
DumpCase ==
  (Mode = "gen" /\ ~built) => PrintT(<<"CASE", ToJson([sshape |-> shape[1], cshape |-> shape[2], mask |-> mask])>>)
=============================================================================
