------------------------------- MODULE Keys -------------------------------
(***************************************************************************)
(* PRNG key discipline of the simulation (C04): the mechanism behind       *)
(* "draws are independent across agents, periods and stochastic            *)
(* variables" and "the same seed reproduces the frame".                    *)
(*                                                                         *)
(* Keys are paths in the split tree: the root is <<>>; Split(k, n) has the *)
(* children k \o <<0>>, ..., k \o <<n-1>>.  JAX guarantees independent     *)
(* streams for distinct paths provided no key is consumed twice            *)
(* (linearity): a key may be the parent of one split OR the key of one     *)
(* draw, and only once.                                                    *)
(*                                                                         *)
(* The forward loop (lcm.simulate): per period                             *)
(*    SplitPeriod:  Split(carry, nVars + 1); carry' = child 0,             *)
(*                  variable j gets child j                                *)
(*    Draw(j):      Split(varkey_j, nAgents); agent i draws with child i   *)
(***************************************************************************)
EXTENDS Naturals, Sequences, FiniteSets

CONSTANTS NPeriods, NVars, NAgents

VARIABLES period, carry, varkeys, drawn, consumed, drawkeys
kvars == <<period, carry, varkeys, drawn, consumed, drawkeys>>
\*   carry     the key carried into the next SplitPeriod
\*   varkeys   keys handed to the stochastic variables in this period (sequence; <<>> before the split)
\*   drawn     set of variables that have drawn in this period
\*   consumed  every key that has been used as parent of a split or for a draw
\*   drawkeys  every key an agent drew with: <<key, period, variable, agent>>

Child(k, i) == Append(k, i)
KInit == period = 0 /\ carry = <<>> /\ varkeys = <<>> /\ drawn = {} /\ consumed = {} /\ drawkeys = {}

\* the actions, parameterised by the sizes (the trace specification supplies those of the recorded run)
SplitPeriodN(nv) ==
  /\ varkeys = <<>>
  /\ consumed' = consumed \cup {carry}
  /\ carry' = Child(carry, 0)
  /\ varkeys' = [j \in 1..nv |-> Child(carry, j)]
  /\ UNCHANGED <<period, drawn, drawkeys>>
DrawN(j, na) ==
  /\ varkeys # <<>> /\ j \in DOMAIN varkeys /\ j \notin drawn
  /\ consumed' = consumed \cup {varkeys[j]} \cup {Child(varkeys[j], i) : i \in 0..na - 1}
  /\ drawkeys' = drawkeys \cup {<<Child(varkeys[j], i), period, j, i>> : i \in 0..na - 1}
  /\ drawn' = drawn \cup {j}
  /\ UNCHANGED <<period, carry, varkeys>>
\* (a period with no stochastic variable still splits the carried key; then varkeys stays <<>>)
EndPeriodN(nv) ==
  /\ (nv = 0 \/ varkeys # <<>>) /\ drawn = 1..nv
  /\ period' = period + 1 /\ varkeys' = <<>> /\ drawn' = {}
  /\ UNCHANGED <<carry, consumed, drawkeys>>
SplitPeriod == period < NPeriods /\ SplitPeriodN(NVars)
Draw(j) == DrawN(j, NAgents)
EndPeriod == EndPeriodN(NVars)
KNext == SplitPeriod \/ (\E j \in 1..NVars : Draw(j)) \/ EndPeriod
KSpec == KInit /\ [][KNext]_kvars
\* liveness: under weak fairness the simulation runs through all periods, every stochastic variable having drawn in each
KFair == KSpec /\ WF_kvars(KNext)
AllPeriodsSimulated == <>(period = NPeriods)
EveryVariableDrawsInEveryPeriod == \A t \in 0..NPeriods - 1 : <>(period = t /\ drawn = 1..NVars)

(* ------------------------------------------------------------ the property on the specification *)
\* linearity: a key about to be consumed has never been consumed before
NoKeyReuse ==
  /\ (varkeys = <<>> /\ period < NPeriods) => carry \notin consumed
  /\ \A j \in 1..NVars : (varkeys # <<>> /\ j \notin drawn) => varkeys[j] \notin consumed
\* the keys agents draw with are pairwise distinct across agents, periods and variables
DrawKeysDistinct ==
  \A a, b \in drawkeys : a[1] = b[1] => a = b
\* no key is consumed before the first period's decisions are made (period 0 is seed independent)
Period0UsesNoKey == (period = 0 /\ varkeys = <<>>) => consumed = {}
=============================================================================
