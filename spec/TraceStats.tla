------------------------------- MODULE TraceStats -------------------------------
(***************************************************************************)
(* Frequencies of simulated stochastic transitions against the transition  *)
(* rows of the model (C04).  A cell = all agent-periods whose transition   *)
(* of state st is governed by the same row (same values of the variables   *)
(* the transition depends on), optionally split further by another draw    *)
(* (the same agent's previous draw, another variable's draw in the same    *)
(* period, the neighbouring agent's draw): under independence the          *)
(* conditional frequencies still follow the row.                           *)
(*                                                                         *)
(* Acceptance region, in exact integer arithmetic, for a label of          *)
(* probability p = a/d observed c times among n:                           *)
(*    p = 0  =>  c = 0          p = 1  =>  c = n                           *)
(*    otherwise |c - n p| <= 3  or  (d c - n a)^2 <= 36 n a (d - a)   (6 sigma) *)
(***************************************************************************)
EXTENDS Bellman, Json, IOUtils

Cases == JsonDeserialize(IOEnv.CASES)
VARIABLES cid, verdict
vars == <<cid, verdict>>
C == Cases[cid]
M == C.mdl

Abs1(x) == IF x < 0 THEN -x ELSE x
CountOK(c, n, p) ==
  LET a == p[1]  d == p[2]
  IN IF a = 0 THEN c = 0
     ELSE IF a = d THEN c = n
     ELSE \/ Abs1(d * c - n * a) <= 3 * d
          \/ (d * c - n * a) * (d * c - n * a) <= 36 * n * a * (d - a)
CellBad(cell) ==
  LET row == ShockRow(M, cell.st, cell.env)
  IN {k \in DOMAIN cell.counts : ~CountOK(cell.counts[k], cell.n, row[k])}
Init == cid \in 1..Len(Cases) /\ verdict = <<"run">>
Judge ==
  /\ verdict = <<"run">>
  /\ LET bad == {i \in DOMAIN C.cells : CellBad(C.cells[i]) # {}}
     IN verdict' = IF bad = {} THEN <<"ok">>
                   ELSE LET i == CHOOSE i \in bad : \A j \in bad : i <= j
                            cell == C.cells[i]
                        IN <<"FAIL", IF cell.cond = "none" THEN "frequency" ELSE "independence-" \o cell.cond,
                             ToString(<<"state", cell.st, "cell", cell.env, "given", cell.given, "n", cell.n, "counts", cell.counts,
                                        "row", ShockRow(M, cell.st, cell.env)>>)>>
  /\ UNCHANGED cid
Spec == Init /\ [][Judge]_vars
Report == (verdict[1] # "run") => PrintT(<<"VERDICT", ToJson([cid |-> C.cid, v |-> verdict, cells |-> Len(C.cells)])>>)
=============================================================================
