------------------------------- MODULE MC_Sim -------------------------------
(***************************************************************************)
(* Model checking of one simulated period (C02, C08 at design level): for  *)
(* every model of module Family, every period and every batch of two       *)
(* agents drawn from a set of on-grid, in-cell and out-of-range states,    *)
(* the implementation-shaped selection of module Simulate (data rows,      *)
(* first/last arg-max rules, selection through the optimal row) returns    *)
(* for every agent a feasible maximiser of the declarative objective and   *)
(* the maximum as value; and an agent's result does not depend on the      *)
(* other agent of the batch.                                               *)
(***************************************************************************)
EXTENDS Simulate, Family

CONSTANTS Horizons, Betas, Curvatures, WithStochastic, Mask0Set

VARIABLES par, t, Vimpl, Vdecl, phase, batch, result
vars == <<par, t, Vimpl, Vdecl, phase, batch, result>>
\* Vimpl / Vdecl: sequences of value arrays / value functions, chronological (index p + 1)
M == FamModel(par.T, par.beta, par.uc, par.m0, par.m1, par.stoch)

Init ==
  /\ par \in [T : Horizons, beta : Betas, uc : Curvatures, m0 : Mask0Set, m1 : Masks, stoch : WithStochastic]
  /\ t = par.T /\ Vimpl = <<>> /\ Vdecl = <<>> /\ phase = "solve" /\ batch = <<>> /\ result = <<>>
SolvePeriod ==
  /\ phase = "solve" /\ t > 0
  /\ Vdecl' = <<TLCEval(VStep(M, t - 1, IF Vdecl = <<>> THEN <<>> ELSE Vdecl[1]))>> \o Vdecl
  /\ Vimpl' = <<TLCEval(ImplStep(M, t - 1, IF Vimpl = <<>> THEN <<>> ELSE Vimpl[1]))>> \o Vimpl
  /\ t' = t - 1 /\ phase' = (IF t = 1 THEN "sim" ELSE "solve")
  /\ UNCHANGED <<par, batch, result>>
\* candidate agent states: w on a node, inside a cell, above the grid range
WVals == {<<0, 1>>, <<1, 2>>, <<2, 1>>, <<5, 2>>}
AgentStates(p) ==
  {[w |-> w, r |-> R(r)] @@ (IF par.stoch THEN [h |-> R(h)] ELSE <<>>) :
      w \in WVals, r \in Admitted(IF p = 0 THEN par.m0 ELSE par.m1), h \in (IF par.stoch THEN {0, 1} ELSE {0})}
\* the first agent of a batch: on-grid and out-of-range (keeps the number of batches linear in |AgentStates|)
FirstAgents(p) == {a \in AgentStates(p) : a.w \in {<<0, 1>>, <<5, 2>>}}
SimPeriod ==
  /\ phase = "sim"
  /\ \E p \in 0..par.T - 1 : \E a1 \in FirstAgents(p) : \E a2 \in AgentStates(p) :
        /\ batch' = <<p, <<a1, a2>>>>
        /\ result' = TLCEval(SimPeriodImpl(M, p, IF p = par.T - 1 THEN <<>> ELSE Vimpl[p + 2], <<a1, a2>>))
  /\ phase' = "done"
  /\ UNCHANGED <<par, t, Vimpl, Vdecl>>
Next == SolvePeriod \/ SimPeriod
Spec == Init /\ [][Next]_vars

InScope == \A p \in DOMAIN Vdecl : ScopeOfV(M, Vdecl[p]) = ""
\* C02 on the specification: the implementation-shaped selection is a feasible maximiser, the value the maximum
ChoiceFeasibleAndMaximal ==
  (phase = "done" /\ InScope) =>
     LET p == batch[1]
         Vn == IF p = par.T - 1 THEN <<>> ELSE Vdecl[p + 2]
     IN \A i \in DOMAIN batch[2] :
          LET ag == batch[2][i]
              env == ag @@ result[i].choice @@ ("_period" :> R(p))
              best == FeasMax(M, p, Vn, ag)
          IN /\ Feasible(M, env)
             /\ Q(M, p, Vn, env) = best
             /\ result[i].value = best
\* C08 on the specification: an agent's decision does not depend on who else is in the batch
AgentIndependent ==
  (phase = "done" /\ InScope) =>
     LET p == batch[1]
         Vn == IF p = par.T - 1 THEN <<>> ELSE Vimpl[p + 2]
     IN \A i \in DOMAIN batch[2] : SimPeriodImpl(M, p, Vn, <<batch[2][i]>>)[1] = result[i]
=============================================================================
