------------------------------- MODULE Solve -------------------------------
(***************************************************************************)
(* Implementation-shaped model of lcm's backward induction (entry_point,   *)
(* solve_brute, model_functions, discrete_problem, function_representation)*)
(* with the data structures of the code:                                   *)
(*                                                                         *)
(*   rows[t]     the combination grid of period t: filter-passing          *)
(*               combinations of the restricted variables (canonical       *)
(*               order, row-major)                                         *)
(*   indexer[t]  ranks of the admitted restricted-state combinations, -1   *)
(*               elsewhere; segs[t] the choice segments of the rows        *)
(*   ccv[t]      conditional continuation values: one axis for the rows    *)
(*               (if any restricted variable), then the unrestricted       *)
(*               discrete states, the unrestricted discrete choices and    *)
(*               the continuous states -- the continuous choices already   *)
(*               maximised out under the constraint mask                   *)
(*   V[t]        the value array in the layout of C05: max over the        *)
(*               unrestricted choice axes, then segment max over the rows  *)
(*   V[t+1] is consumed through the function representation: labels ->     *)
(*   positions, state indexer OF PERIOD t+1, look-up on the discrete axes, *)
(*   map_coordinates on the continuous axes; the expectation sums over ALL *)
(*   label combinations of the stochastic states with their weights.       *)
(*                                                                         *)
(* MC_Solve checks, for every model of a family defined in TLA+, that this *)
(* machine computes the declarative Bellman solution of module Bellman     *)
(* (ImplMatchesDecl) -- in particular that the two cooperating shifts of   *)
(* entry_point (space infos AND state indexers of the next period) are     *)
(* both needed: IndexerPeriod = "current" reproduces the defect repaired   *)
(* in /repo (known_findings.json, D2).                                     *)
(***************************************************************************)
EXTENDS Bellman

CONSTANT IndexerPeriod        \* "next" (the code) or "current" (the former defect)

(* ------------------------------------------------------------ per-period tables *)
HasSparse(M) == CanonSparse(M) # <<>>
SS(M) == SizesOf(CanonSparseStates(M))
CS(M) == SizesOf(CanonSparseChoices(M))
Rows(M, t) == ImplCombos(SS(M), CS(M), MaskOf(M, t))            \* sequence of index tuples over CanonSparse(M)
Indexer(M, t) == ImplIndexer(SS(M), CS(M), MaskOf(M, t))        \* flat over Prod(SS(M))
Segs(M, t) == ImplSegments(SS(M), CS(M), MaskOf(M, t))
NumSegs(M, t) == ImplNumSegments(SS(M), CS(M), MaskOf(M, t))
DenseAxes(M) == DenseDiscStates(M) \o DenseDiscChoices(M) \o ContStates(M)
DenseIdx(M) == ProdOf(DenseAxes(M))                              \* assignments name -> index, row-major

(* ------------------------------------------------------------ function representation of V_{t+1} *)
\* Varr: function from index tuples in the layout of C05 (period tn) to numbers
RECURSIVE RowMajorOff(_, _)
RowMajorOff(i, s) == IF i = <<>> THEN 0 ELSE Head(i) * Len(Prod(Tail(s))) + RowMajorOff(Tail(i), Tail(s))
RowMajorPos(idx, shape) == RowMajorOff(idx, shape) + 1      \* 1-based flat position of a 0-based tuple
FuncRepImpl(M, tn, ti, Varr, y) ==
  \* tn: period the array belongs to; ti: period whose state indexer is used; y: state values
  LET sps == CanonSparseStates(M)
      dds == DenseDiscStates(M)
      cts == ContStates(M)
      nrows == NumSegs(M, tn)
      pos(v) == y[v.name][1]                                         \* labels are positions
      stateIndex == IF sps = <<>> THEN <<>>
                    ELSE LET i == Indexer(M, ti)[RowMajorPos([k \in DOMAIN sps |-> pos(sps[k])], SS(M))]
                         IN <<IF i = -1 THEN nrows - 1 ELSE i>>      \* a negative index wraps around in numpy/jax
      disc == stateIndex \o [k \in DOMAIN dds |-> pos(dds[k])]
      cshape == SizesOf(cts)
      sub == [c \in ToSet(Prod(cshape)) |-> Varr[disc \o c]]
      coords == [k \in DOMAIN cts |-> Coord(cts[k], y[cts[k].name])]
  IN MapCoordinates(sub, cshape, coords)

(* ------------------------------------------------------------ u_and_f and the continuous problem *)
\* utility + beta * expected continuation at a full state/choice assignment env (values)
BigU(M, t, Vnext, env) ==
  LET u == CallF(M, "utility", env)
  IN IF t = M.T - 1 THEN u
     ELSE LET det0 == NextDet(M, env)
              det(l) == IF DetReadsDraw(M) THEN NextDetGiven(M, env, l) ELSE det0
              sn   == StochNames(M)
              rows == [st \in sn |-> ShockRow(M, st, env)]
              labs == LabelCombos(M)
              ti   == IF IndexerPeriod = "next" THEN t + 1 ELSE t
              ev   == RSum(labs, LAMBDA l :
                         RMul(RProd(sn, LAMBDA st : rows[st][l[st] + 1]),
                              FuncRepImpl(M, t + 1, ti, Vnext, det(l) @@ [st \in sn |-> R(l[st])])))
          IN RAdd(u, RMul(M.params["beta"], ev))
\* compute_ccv: max over the product of the continuous choice grids under the constraint mask
ComputeCcv(M, t, Vnext, envDisc) ==
  LET cc == ContChoices(M)
  IN RMaxOver({c \in IdxSet(cc) :
                 PassAll(M, "constraint", envDisc @@ [n \in NamesOf(cc) |-> GridVal(VarRec(M, n), c[n])])},
              LAMBDA c : BigU(M, t, Vnext, envDisc @@ [n \in NamesOf(cc) |-> GridVal(VarRec(M, n), c[n])]))

\* environment of a row (restricted variables) and a dense index assignment
EnvOfRowDense(M, t, row, d) ==
  LET sp == CanonSparse(M)
  IN [n \in NamesOf(sp) |-> GridVal(VarRec(M, n), row[CHOOSE k \in DOMAIN sp : sp[k].name = n])]
     @@ [n \in DOMAIN d |-> GridVal(VarRec(M, n), d[n])] @@ ("_period" :> R(t))

(***************************************************************************)
(* SolveContinuous(t): spacemap(compute_ccv) over the state-choice space.  *)
(* ccv is a function from <<row?>> \o <<dense indices in canonical order>>.*)
(***************************************************************************)
DenseTuple(M, d) == [k \in DOMAIN DenseAxes(M) |-> d[DenseAxes(M)[k].name]]
SolveContinuous(M, t, Vnext) ==
  LET rows == IF HasSparse(M) THEN Rows(M, t) ELSE << <<>> >>
      dset == ToSet(DenseIdx(M))
  IN [key \in {(IF HasSparse(M) THEN <<r - 1>> ELSE <<>>) \o DenseTuple(M, d) : r \in DOMAIN rows, d \in dset} |->
        LET r == IF HasSparse(M) THEN key[1] + 1 ELSE 1
            d == CHOOSE d \in dset : DenseTuple(M, d) = (IF HasSparse(M) THEN Tail(key) ELSE key)
        IN ComputeCcv(M, t, Vnext, EnvOfRowDense(M, t, rows[r], d))]

(***************************************************************************)
(* SolveDiscrete(t): max over the unrestricted discrete choice axes, then  *)
(* segment max over the rows.  Result in the layout of C05.                *)
(***************************************************************************)
StateDenseAxes(M) == DenseDiscStates(M) \o ContStates(M)
SolveDiscrete(M, t, ccv) ==
  LET nseg == IF HasSparse(M) THEN NumSegs(M, t) ELSE 1
      segs == Segs(M, t)
      sdIdx == ProdOf(StateDenseAxes(M))
      chIdx == ProdOf(DenseDiscChoices(M))
      full(sd, ch) == DenseTuple(M, sd @@ ch)
      rowsOf(s) == IF HasSparse(M) THEN {r \in DOMAIN segs : segs[r] = s} ELSE {1}
      key(r, sd, ch) == (IF HasSparse(M) THEN <<r - 1>> ELSE <<>>) \o full(sd, ch)
  IN [k \in {(IF HasSparse(M) /\ CanonSparseStates(M) # <<>> THEN <<s>> ELSE <<>>)
               \o [j \in DOMAIN StateDenseAxes(M) |-> sdIdx[i][StateDenseAxes(M)[j].name]] : s \in 0..nseg - 1, i \in DOMAIN sdIdx} |->
        LET s == IF HasSparse(M) /\ CanonSparseStates(M) # <<>> THEN k[1] ELSE 0
            rest == IF HasSparse(M) /\ CanonSparseStates(M) # <<>> THEN Tail(k) ELSE k
            sd == CHOOSE sd \in ToSet(sdIdx) : [j \in DOMAIN StateDenseAxes(M) |-> sd[StateDenseAxes(M)[j].name]] = rest
        IN RMaxOver(rowsOf(s) \X ToSet(chIdx), LAMBDA rc : ccv[key(rc[1], sd, rc[2])])]

\* one iteration of the backward loop, implementation-shaped
ImplStep(M, t, Vnext) == SolveDiscrete(M, t, TLCEval(SolveContinuous(M, t, Vnext)))

(* ------------------------------------------------------------ refinement *)
\* index of grid state s in the layout of period t
LayoutKey(M, t, s) ==
  LET sps == CanonSparseStates(M)
      rank == IF sps = <<>> THEN <<>>
              ELSE <<Indexer(M, t)[RowMajorPos([k \in DOMAIN sps |-> s[sps[k].name]], SS(M))]>>
  IN rank \o [j \in DOMAIN StateDenseAxes(M) |-> s[StateDenseAxes(M)[j].name]]
\* the implementation-shaped array equals the declarative value function on the period's space
ImplEqualsDecl(M, t, Vimpl, Vdecl) ==
  \A s \in IdxSet(StateSeq(M)) : InSpace(M, t, s) => Vimpl[LayoutKey(M, t, s)] = Vdecl[s]
=============================================================================
