CONSTANTS IndexerPeriod = "next" Horizons = {2} Betas <- BetasQuick Curvatures = {1} WithStochastic = {FALSE} Mask0Set <- QuickMask0
SPECIFICATION FairSpec
PROPERTY AllPeriodsSolved
INVARIANT ImplMatchesDecl
INVARIANT InfeasibleIffNegInf
INVARIANT ShapeIsLayout
CHECK_DEADLOCK FALSE
