CONSTANTS IndexerPeriod = "next" DenseSelect = "row" Horizons = {2} Betas <- BetasQuick Curvatures = {1} WithStochastic = {TRUE} Mask0Set <- PanelMask0 Mask1Set <- PanelMask1Quick NAg = 2 Variant = "agent-major"
SPECIFICATION Spec
INVARIANT PanelComplete
CHECK_DEADLOCK FALSE
