CONSTANTS NPeriods = 4 NVars = 3 NAgents = 3
SPECIFICATION KFair
PROPERTY AllPeriodsSimulated
PROPERTY EveryVariableDrawsInEveryPeriod
INVARIANT NoKeyReuse
INVARIANT DrawKeysDistinct
INVARIANT Period0UsesNoKey
CHECK_DEADLOCK FALSE
