CONSTANTS Models = {1, 2} ParamSets = {1, 2} Inits = {1} Seeds = {1, 2} MaxFuncs = 2 Depth = 4
SPECIFICATION ASpec
INVARIANT NoHiddenState
PROPERTY HeldChangedByUserOnly
PROPERTY RejectedCallsLeaveNoTrace
INVARIANT TermDependsOnArgumentsOnly
INVARIANT CombinedIsSolveThenSimulate
CONSTRAINT Bound
CHECK_DEADLOCK FALSE
