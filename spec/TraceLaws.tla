------------------------------- MODULE TraceLaws -------------------------------
(***************************************************************************)
(* Trace validation of pairs of recorded solutions of related models       *)
(* against module Relations (C10, C11).  Per case:                         *)
(*   shape   the observed shapes are those of the layout contract          *)
(*   spec    (small models) the law holds between the specification's own  *)
(*           solutions -- the laws are theorems of the specification on    *)
(*           the instances used, not folklore                              *)
(*   obs     the law holds between the two observed solutions              *)
(* Large models (flat = TRUE: same layout, no restricted states) are       *)
(* compared entry by entry without recomputing any solution.               *)
(***************************************************************************)
EXTENDS Relations, Pipeline, Json, IOUtils

Cases == JsonDeserialize(IOEnv.CASES)
VARIABLES cid, pc, verdict, compared
vars == <<cid, pc, verdict, compared>>
C == Cases[cid]
Fail(clause, detail) == <<"FAIL", clause, detail>>

Init == cid \in 1..Len(Cases) /\ pc = "shape" /\ verdict = <<"run">> /\ compared = 0

ObsW(M, o) == TLCEval([p \in 1..M.T |-> TLCEval(Unflat(M, p - 1, o.V[p]))])
RECURSIVE SpecVs(_, _, _)
SpecVs(M, t, Vs) == IF t = 0 THEN Vs ELSE SpecVs(M, t - 1, SolveStep(M, t, Vs))

ShapeBad(M, o) == o.n # M.T \/ \E p \in 0..M.T - 1 : o.shapes[p + 1] # Shape(M, p) \/ Len(o.V[p + 1]) # NumCells(M, p)
TrShape ==
  /\ verdict[1] = "run" /\ pc = "shape"
  /\ IF C.error THEN verdict' = Fail("crash", ToString(<<C.cls, C.msg>>))
     ELSE IF C.flat THEN verdict' = verdict
     ELSE IF ShapeBad(C.m1, C.o1) \/ ShapeBad(C.m2, C.o2) THEN verdict' = Fail("layout-shape", "observed shapes differ from the layout contract")
     ELSE verdict' = verdict
  /\ pc' = (IF C.flat THEN "flat" ELSE IF C.check_spec THEN "spec" ELSE "obs")
  /\ UNCHANGED <<cid, compared>>
TrSpec ==
  /\ verdict[1] = "run" /\ pc = "spec"
  /\ LET W1 == SpecVs(C.m1, C.m1.T, <<>>)
         W2 == SpecVs(C.m2, C.m2.T, <<>>)
         oos == \E p \in DOMAIN W1 : ScopeOfV(C.m1, W1[p]) # ""
         oos2 == \E p \in DOMAIN W2 : ScopeOfV(C.m2, W2[p]) # ""
     IN IF oos \/ oos2 THEN verdict' = <<"SKIP", "out-of-scope">>
        ELSE IF RelBad(C.rel, C.m1, C.m2, W1, W2, <<0, 1>>) # {}
        THEN verdict' = Fail("SPEC-LAW", ToString(CHOOSE x \in RelBad(C.rel, C.m1, C.m2, W1, W2, <<0, 1>>) : TRUE))
        ELSE verdict' = verdict
  /\ pc' = "obs" /\ UNCHANGED <<cid, compared>>
TrObs ==
  /\ verdict[1] = "run" /\ pc = "obs"
  /\ LET W1 == ObsW(C.m1, C.o1)
         W2 == ObsW(C.m2, C.o2)
         bad == RelBad(C.rel, C.m1, C.m2, W1, W2, C.tol)
     IN /\ compared' = RelCompared(C.rel, C.m1, C.m2, W1, W2)
        /\ IF bad = {} THEN verdict' = <<"ok">>
           ELSE LET x == CHOOSE x \in bad : TRUE
                    t1 == C.rel.pairs[x[1]][1]  t2 == C.rel.pairs[x[1]][2]
                IN verdict' = Fail(C.law, ToString(<<"periods", t1, t2, "state", x[2], "first", W1[t1 + 1][x[2]],
                                                     "second", W2[t2 + 1][MapState(C.rel, x[2])],
                                                     "expected", Expected(C.rel, C.m1, t1, W1[t1 + 1][x[2]])>>))
  /\ pc' = "done" /\ UNCHANGED cid
\* large models: same flat layout in both, entry by entry
TrFlat ==
  /\ verdict[1] = "run" /\ pc = "flat"
  /\ LET bad == {<<k, j>> \in (DOMAIN C.rel.pairs) \X (1..C.ncells) :
                    ~Close(RAdd(RMul(C.rel.a, C.o1.V[C.rel.pairs[k][1] + 1][j]), RMul(C.rel.b, GeomSum(C.rel.beta, C.t1 - 1 - C.rel.pairs[k][1]))),
                           C.o2.V[C.rel.pairs[k][2] + 1][j], C.tol)}
     IN /\ compared' = Len(C.rel.pairs) * C.ncells
        /\ IF \E k \in DOMAIN C.rel.pairs : Len(C.o1.V[C.rel.pairs[k][1] + 1]) # C.ncells \/ Len(C.o2.V[C.rel.pairs[k][2] + 1]) # C.ncells
           THEN verdict' = Fail("layout-shape", "number of entries")
           ELSE IF bad = {} THEN verdict' = <<"ok">>
           ELSE LET x == CHOOSE x \in bad : TRUE
                IN verdict' = Fail(C.law, ToString(<<"pair", C.rel.pairs[x[1]], "entry", x[2] - 1,
                                                     "first", C.o1.V[C.rel.pairs[x[1]][1] + 1][x[2]], "second", C.o2.V[C.rel.pairs[x[1]][2] + 1][x[2]]>>))
  /\ pc' = "done" /\ UNCHANGED cid
Next == TrShape \/ TrSpec \/ TrObs \/ TrFlat
Spec == Init /\ [][Next]_vars
Report == (verdict[1] # "run") => PrintT(<<"VERDICT", ToJson([cid |-> C.cid, v |-> verdict, compared |-> compared])>>)
=============================================================================
