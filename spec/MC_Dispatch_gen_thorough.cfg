CONSTANTS Mode = "gen" MaxParams = 4 MaxCallParams = 4
SPECIFICATION Spec
INVARIANT Dump
CHECK_DEADLOCK FALSE
