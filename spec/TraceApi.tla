------------------------------- MODULE TraceApi -------------------------------
(***************************************************************************)
(* Trace validation of recorded API call histories against module Api      *)
(* (C09): every recorded call must be an enabled Api action; the result    *)
(* digest of a call must equal the digest of every earlier call with the   *)
(* same denotation term (repeated calls, calls interleaved with other      *)
(* arguments, re-created function objects, the other jit flag, other       *)
(* processes / hash seeds); fingerprints of the model object and of the    *)
(* params passed in must not change, nor may any params object the user    *)
(* still holds (the filled templates, Api!held).                           *)
(***************************************************************************)
EXTENDS Api, Json, IOUtils

Cases == JsonDeserialize(IOEnv.CASES)
VARIABLES cid, l, verdict, seen      \* seen: term |-> digest (as a set of pairs)
tvars == <<cid, l, verdict, seen, funcs, hist, hidden, held>>
C == Cases[cid]
Ev == C.events[l]
Running == verdict[1] = "run"
Fail(clause, detail) == <<"FAIL", clause, detail>>

TInit == cid \in 1..Len(Cases) /\ l = 1 /\ verdict = <<"run">> /\ seen = {} /\ AInit

\* the Api action that the recorded event claims to be
ApiStep(e) ==
  CASE e.op = "create" -> Create(e.model, e.target, e.jit)
    [] e.op = "fill" -> FillTemplate(e.f, e.p)
    [] e.op = "rejected" -> RejectedCall(e.f, e.p, e.init, e.seed, e.kind)
    [] e.op = "solve" -> CallSolve(e.f, e.p, e.via)
    [] e.op = "simulate" -> CallSimulate(e.f, e.p, e.init, e.seed, e.vfrom, e.via)
    [] e.op = "solve_and_simulate" /\ e.vfrom = 0 -> CallSolveAndSimulate(e.f, e.p, e.init, e.seed, e.via)
    [] e.op = "solve_and_simulate" /\ e.vfrom # 0 -> CallCombinedWithArrays(e.f, e.p, e.init, e.seed, e.vfrom, e.via)

Judge(e, term) ==
  IF e.op = "create" THEN
     (IF e.model_fp_before # e.model_fp_after THEN Fail("model-mutated", ToString(<<"create", l>>)) ELSE <<"run">>)
  ELSE IF e.op = "fill" THEN <<"run">>
  ELSE IF e.op = "rejected" THEN
     (IF ~e.error THEN Fail("bad-call-accepted", ToString(<<e.kind, l>>))
      ELSE IF e.cls # "ValueError" THEN Fail("bad-call-wrong-error-class", ToString(<<e.kind, e.cls, e.msg>>))
      ELSE IF e.model_fp_before # e.model_fp_after THEN Fail("model-mutated", ToString(<<e.op, l>>))
      ELSE IF e.params_fp_before # e.params_fp_after THEN Fail("params-mutated", ToString(<<e.op, l>>))
      ELSE IF e.held_fp_before # e.held_fp_after THEN Fail("held-params-mutated", ToString(<<e.op, l>>))
      ELSE <<"run">>)
  ELSE IF e.error THEN Fail("crash", ToString(<<e.op, e.cls, e.msg>>))
  ELSE IF e.model_fp_before # e.model_fp_after THEN Fail("model-mutated", ToString(<<e.op, l>>))
  ELSE IF e.params_fp_before # e.params_fp_after THEN Fail("params-mutated", ToString(<<e.op, l>>))
  \* the objects the user holds (filled templates of all function objects) are not written to by the call
  ELSE IF e.held_fp_before # e.held_fp_after THEN Fail("held-params-mutated", ToString(<<e.op, l, "f", e.f, "p", e.p>>))
  ELSE IF e.args_fp_before # e.args_fp_after THEN Fail("arguments-mutated", ToString(<<e.op, l>>))
  ELSE IF \E pr \in seen : pr[1] = term /\ pr[2] # e.digest
     THEN Fail("same-term-different-result", ToString(<<"event", l, "op", e.op, "f", e.f, "jit", e.jit, "term", term>>))
  ELSE <<"run">>

TStep ==
  /\ Running /\ l <= Len(C.events)
  /\ ApiStep(Ev)
  /\ LET term == hist'[Len(hist')].term
     IN /\ verdict' = Judge(Ev, term)
        /\ seen' = IF Ev.op \in {"create", "fill", "rejected"} \/ Ev.error THEN seen ELSE seen \cup {<<term, Ev.digest>>}
  /\ l' = l + 1 /\ UNCHANGED cid
\* results of the same calls in other processes (other PYTHONHASHSEED): compared through the term
TExtern ==
  /\ Running /\ l > Len(C.events) /\ l <= Len(C.events) + Len(C.extern)
  /\ LET x == C.extern[l - Len(C.events)]
         term == hist[x.ref].term
     IN verdict' = IF x.error THEN Fail("crash", ToString(<<"process", x.hashseed, x.cls, x.msg>>))
                   ELSE IF \E pr \in seen : pr[1] = term /\ pr[2] # x.digest
                   THEN Fail("other-process-different-result", ToString(<<"hashseed", x.hashseed, "call", x.ref, "term", term>>))
                   ELSE <<"run">>
  /\ l' = l + 1 /\ UNCHANGED <<cid, seen, funcs, hist, hidden, held>>
TDone ==
  /\ Running /\ l > Len(C.events) + Len(C.extern)
  /\ verdict' = <<"ok">> /\ UNCHANGED <<cid, l, seen, funcs, hist, hidden, held>>
\* a recorded event that is not an enabled Api action: the trace is not a behaviour of the specification
TStuck ==
  /\ Running /\ l <= Len(C.events) /\ ~ENABLED ApiStep(Ev)
  /\ verdict' = Fail("not-an-api-behaviour", ToString(<<l, Ev.op>>)) /\ UNCHANGED <<cid, l, seen, funcs, hist, hidden, held>>
TNext == TStep \/ TExtern \/ TDone \/ TStuck
TSpec == TInit /\ [][TNext]_tvars
Report == (verdict[1] # "run") => PrintT(<<"VERDICT", ToJson([cid |-> C.cid, v |-> verdict, calls |-> Len(hist), terms |-> Cardinality({pr[1] : pr \in seen})])>>)
=============================================================================
