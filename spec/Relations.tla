------------------------------- MODULE Relations -------------------------------
(***************************************************************************)
(* Relations between the solutions of two related models (C10, C11).       *)
(*                                                                         *)
(* A relation is [rename, pairs, a, b, beta]:                              *)
(*   rename  maps every state name of model 1 to the corresponding state   *)
(*           name of model 2 (identity unless variables were renamed)      *)
(*   pairs   sequence of <<t1, t2>>: period t1 of model 1 is related to    *)
(*           period t2 of model 2                                          *)
(*   a, b    V2[t2][s'] = a * V1[t1][s] + b * SUM_{k=0}^{T1-1-t1} beta^k   *)
(* for every state s that is in the space of both models (s' = s under     *)
(* rename).  a = 1, b = 0 gives equality:                                  *)
(*   C10  permuted declaration orders, renamings, an always-true extra     *)
(*        constraint or filter, a discrete restriction written as filter   *)
(*        instead of constraint (all periods paired with themselves)       *)
(*   C11  affine transformation of utility (a > 0, b), beta = 0 (period t  *)
(*        of the long model = last period of the model truncated after t), *)
(*        horizon shift (t <-> t + k), degenerate stochastic transition    *)
(***************************************************************************)
EXTENDS Bellman

RECURSIVE GeomSum(_, _)
GeomSum(beta, n) == IF n < 0 THEN R(0) ELSE RAdd(R(1), RMul(beta, GeomSum(beta, n - 1)))   \* sum_{k=0}^{n} beta^k

MapState(rel, s) == [n2 \in {rel.rename[n1] : n1 \in DOMAIN s} |-> s[CHOOSE n1 \in DOMAIN s : rel.rename[n1] = n2]]
Expected(rel, M1, t1, v1) == RAdd(RMul(rel.a, v1), RMul(rel.b, GeomSum(rel.beta, M1.T - 1 - t1)))

\* W1, W2: sequences (per period) of value functions [IdxSet(states) -> xrat or Excl]
RelBad(rel, M1, M2, W1, W2, tol) ==
  {<<k, s>> \in (DOMAIN rel.pairs) \X IdxSet(StateSeq(M1)) :
     LET t1 == rel.pairs[k][1]  t2 == rel.pairs[k][2]
         v1 == W1[t1 + 1][s]
         v2 == W2[t2 + 1][MapState(rel, s)]
     IN v1 # Excl /\ v2 # Excl /\ ~Close(Expected(rel, M1, t1, v1), v2, tol)}
\* both in the space, or the relation says nothing about the state: how many states are compared
RelCompared(rel, M1, M2, W1, W2) ==
  Cardinality({<<k, s>> \in (DOMAIN rel.pairs) \X IdxSet(StateSeq(M1)) :
     W1[rel.pairs[k][1] + 1][s] # Excl /\ W2[rel.pairs[k][2] + 1][MapState(rel, s)] # Excl})
=============================================================================
