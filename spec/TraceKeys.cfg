CONSTANTS NPeriods = 1000 NVars = 0 NAgents = 0
SPECIFICATION TSpec
INVARIANT Report
INVARIANT DrawKeysDistinct
CHECK_DEADLOCK FALSE
