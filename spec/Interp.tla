------------------------------- MODULE Interp -------------------------------
(***************************************************************************)
(* Grid coordinates and multilinear interpolation (lcm.grid_helpers,       *)
(* lcm.ndimage.map_coordinates, lcm.function_representation).              *)
(***************************************************************************)
EXTENDS Mdl

Clip(i, lo, hi) == IF i < lo THEN lo ELSE IF i > hi THEN hi ELSE i

(* ------------------------------------------------------------ coordinates *)
\* generalised coordinate of x on a linear grid: (x - start) / step; defined for every x
LinCoord(v, x) == RDiv(RSub(x, v.start), RDiv(RSub(v.stop, v.start), R(v.n - 1)))

\* generalised coordinate on a log grid, for x inside [first node, last node]:
\* index of the cell containing x plus the *linear* position of x inside that cell
\* (grid_helpers.get_logspace_coordinate computes the cell with logarithms and then
\* exactly this quotient).  Outside the range the property makes no statement; the
\* specification continues the outermost cell linearly, which is never exercised.
LogCell(v, x) ==
  IF RLe(x, v.nodes[1]) THEN 0
  ELSE IF RLe(v.nodes[v.n], x) THEN v.n - 2
  ELSE CHOOSE i \in 0..v.n - 2 : RLe(v.nodes[i + 1], x) /\ RLt(x, v.nodes[i + 2])
LogCoord(v, x) ==
  LET i == LogCell(v, x)
  IN RAdd(R(i), RDiv(RSub(x, v.nodes[i + 1]), RSub(v.nodes[i + 2], v.nodes[i + 1])))
InLogRange(v, x) == RLe(v.nodes[1], x) /\ RLe(x, v.nodes[v.n])

Coord(v, x) == IF v.kind = "lin" THEN LinCoord(v, x) ELSE LogCoord(v, x)

\* a log grid is a geometric progression: g[i]^2 = g[i-1] * g[i+1], increasing, positive
IsGeometric(nodes) ==
  /\ \A i \in DOMAIN nodes : RLt(R(0), nodes[i])
  /\ \A i \in 1..Len(nodes) - 1 : RLt(nodes[i], nodes[i + 1])
  /\ \A i \in 2..Len(nodes) - 1 : RMul(nodes[i], nodes[i]) = RMul(nodes[i - 1], nodes[i + 1])

(* ------------------------------------------------------------ interpolation kernel *)
(***************************************************************************)
(* MapCoordinates(arr, shape, coords): arr is a function from 0-based      *)
(* index tuples (sequences) to numbers, shape its sizes, coords one        *)
(* (possibly fractional, possibly outside the index range) coordinate per  *)
(* axis.  Per axis: lower index = clip(floor(c), 0, size-2), upper weight  *)
(* = c - lower (may leave [0,1]: linear continuation of the boundary       *)
(* cell), lower weight = 1 - upper weight; result = sum over the 2^rank    *)
(* corners of (product of weights) * entry.                                *)
(***************************************************************************)
Lower(c, size) == Clip(RFloor(c), 0, size - 2)
MapCoordinates(arr, shape, coords) ==
  LET rank == Len(shape)
      lo == [k \in 1..rank |-> Lower(coords[k], shape[k])]
      wu == [k \in 1..rank |-> RSub(coords[k], R(lo[k]))]
      wgt(b) == RProd(1..rank, LAMBDA k : IF b[k] = 1 THEN wu[k] ELSE RSub(R(1), wu[k]))
  IN RSum([1..rank -> {0, 1}], LAMBDA b : RMul(wgt(b), arr[[k \in 1..rank |-> lo[k] + b[k]]]))
=============================================================================
