CONSTANTS IndexerPeriod = "next" DenseSelect = "row" Horizons = {2, 3} Betas <- BetasQuick Curvatures = {0, 1} WithStochastic = {FALSE, TRUE} Mask0Set <- QuickMask0
SPECIFICATION Spec
INVARIANT ChoiceFeasibleAndMaximal
INVARIANT AgentIndependent
CHECK_DEADLOCK FALSE
