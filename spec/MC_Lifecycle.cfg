CONSTANT Mode = "mc"
SPECIFICATION LFair
PROPERTY EveryLifeCycleEnds
PROPERTY AcceptedRunsToCompletion
INVARIANT RejectedEarlyOrCompleted
CHECK_DEADLOCK FALSE
