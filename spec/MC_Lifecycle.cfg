CONSTANT Mode = "mc"
SPECIFICATION LSpec
INVARIANT RejectedEarlyOrCompleted
CHECK_DEADLOCK FALSE
