------------------------------- MODULE Bellman -------------------------------
(***************************************************************************)
(* Declarative reference semantics of `solve' and of one simulated         *)
(* decision (C01, C02, C03, C06): the Bellman equation over the grid,      *)
(* written the way the properties state it.                                *)
(*                                                                         *)
(* A value function of one period is Vt : [IdxSet(StateSeq(M)) -> xrat],   *)
(* with the marker Excl at states that are not in the period's space.      *)
(***************************************************************************)
EXTENDS StateSpace

(* ------------------------------------------------------------ V_{t+1} as a function *)
(***************************************************************************)
(* The next-period value at a (possibly off-grid) state y : [state names   *)
(* -> xrat]: read exactly in the discrete states, multilinearly            *)
(* interpolated / linearly extrapolated in the continuous states.          *)
(* OOS if a discrete component is not a label or the discrete part is      *)
(* excluded from the space (outside the scope of C01).                     *)
(***************************************************************************)
VFun(M, Vt, y) ==
  LET ss   == StateSeq(M)
      cont == {ss[i].name : i \in {j \in DOMAIN ss : IsCont(ss[j])}}
      disc == NamesOf(ss) \ cont
  IN IF \E n \in disc : ~(y[n][2] = 1 /\ y[n][1] \in 0..VarRec(M, n).n - 1) THEN OOS
     ELSE IF \E n \in cont : ~IsFin(y[n]) THEN NaN
     ELSE
     LET co == [n \in cont |-> Coord(VarRec(M, n), y[n])]
         lo == [n \in cont |-> Lower(co[n], VarRec(M, n).n)]
         wu == [n \in cont |-> RSub(co[n], R(lo[n]))]
         corner(b) == [n \in NamesOf(ss) |-> IF n \in cont THEN lo[n] + b[n] ELSE y[n][1]]
         wgt(b) == RProd(cont, LAMBDA n : IF b[n] = 1 THEN wu[n] ELSE RSub(R(1), wu[n]))
         corners == [cont -> {0, 1}]
     IN IF \E b \in corners : Vt[corner(b)] = Excl THEN OOS
        ELSE RSum(corners, LAMBDA b : RMul(wgt(b), Vt[corner(b)]))

(* ------------------------------------------------------------ transitions *)
\* row of the transition array of stochastic state st selected by the dependency values of
\* env *in signature order* (discrete values and the period are their own indices)
ShockRow(M, st, env) ==
  LET f == StochFunc(M, st)
  IN Dig(M.params["shocks"][st], [i \in DOMAIN f.args |-> env[f.args[i]][1]])
\* deterministic next states
DetNames(M) == StateNames(M) \ StochNames(M)
NextDet(M, env) == [n \in DetNames(M) |-> CallF(M, "next_" \o n, env)]
(***************************************************************************)
(* A deterministic transition may read the REALISED next value of a        *)
(* stochastic state (an argument next_<stochastic state>, e.g. next-period *)
(* wealth that depends on next-period health).  Then the deterministic     *)
(* next states are a function of the drawn labels l as well.               *)
(***************************************************************************)
DrawNames(M) == {"next_" \o st : st \in StochNames(M)}
DetReadsDraw(M) == \E n \in DetNames(M) : FuncAnc(M, "next_" \o n) \cap DrawNames(M) # {}
NextDetGiven(M, env, l) ==
  IF DetReadsDraw(M)
  THEN NextDet(M, env @@ [f \in DrawNames(M) |-> R(l[CHOOSE st \in StochNames(M) : "next_" \o st = f])])
  ELSE NextDet(M, env)
\* all label combinations of the stochastic states
LabelCombos(M) == IdxSet(SelectSeq(StateSeq(M), LAMBDA v : v.name \in StochNames(M)))

(* ------------------------------------------------------------ the objective *)
(***************************************************************************)
(* Q(M, t, Vn, env) = utility + beta * E[V_{t+1}] at the state/choice/     *)
(* period given by env; no continuation term in the last period.  The      *)
(* expectation is the probability-weighted sum over the label combinations *)
(* of the stochastic states.  A label combination of probability zero      *)
(* contributes nothing, also when it leads outside the space; if it leads  *)
(* to an infinite value the product is ill-defined (NaN), as in IEEE.      *)
(***************************************************************************)
Q(M, t, Vn, env) ==
  LET u == CallF(M, "utility", env)
  IN IF t = M.T - 1 THEN u
     ELSE
     LET det0 == NextDet(M, env)
         det(l) == IF DetReadsDraw(M) THEN NextDetGiven(M, env, l) ELSE det0
         sn   == StochNames(M)
         rows == [st \in sn |-> ShockRow(M, st, env)]
         w(l) == RProd(sn, LAMBDA st : rows[st][l[st] + 1])
         v(l) == VFun(M, Vn, det(l) @@ [st \in sn |-> R(l[st])])
         labs == LabelCombos(M)
     IN IF \E l \in labs : w(l) # R(0) /\ v(l) = OOS THEN OOS
        ELSE LET ev == RSum(labs, LAMBDA l : IF v(l) = OOS THEN R(0) ELSE RMul(w(l), v(l)))
             IN RAdd(u, RMul(M.params["beta"], ev))

\* choice assignment c (indices) is feasible at state values stEnv in period t
EnvAt(M, stEnv, c, t) ==
  stEnv @@ [n \in ChoiceNames(M) |-> GridVal(VarRec(M, n), c[n])] @@ ("_period" :> R(t))
Feasible(M, env) == PassAll(M, "filter", env) /\ PassAll(M, "constraint", env)

QMax(acc, q) == IF acc = OOS \/ q = OOS THEN OOS ELSE RMax(acc, q)
\* max over all feasible grid choice combinations; -inf if there is none
FeasMax(M, t, Vn, stEnv) ==
  FoldSet(LAMBDA c, acc :
            LET env == EnvAt(M, stEnv, c, t)
            IN IF Feasible(M, env) THEN QMax(acc, Q(M, t, Vn, env)) ELSE acc,
          NegInf, IdxSet(ChoiceSeq(M)))

(***************************************************************************)
(* One step of backward induction: the value function of period t from     *)
(* that of period t+1 (Vn is irrelevant for t = T-1).                      *)
(***************************************************************************)
VStep(M, t, Vn) ==
  [s \in IdxSet(StateSeq(M)) |->
     IF ~InSpace(M, t, s) THEN Excl ELSE FeasMax(M, t, Vn, StateEnv(M, s))]

RECURSIVE VDecl(_, _)
VDecl(M, t) == VStep(M, t, IF t = M.T - 1 THEN <<>> ELSE VDecl(M, t + 1))

\* scope of a solved period: "" or the reason why the model is outside the scope of C01
ScopeOfV(M, Vt) ==
  IF \E s \in DOMAIN Vt : Vt[s] = OOS THEN "transition-into-excluded-state"
  ELSE IF \E s \in DOMAIN Vt : Vt[s] = NaN THEN "ill-defined-arithmetic"
  ELSE ""

(* ------------------------------------------------------------ one simulated row (C02, C03) *)
(***************************************************************************)
(* row  = [state : names -> xrat, choice : names -> xrat, value : xrat]    *)
(* nxt  = the same agent's row of period t+1                               *)
(* Vn   = value function of period t+1 in use                              *)
(* Results: "" if the row satisfies the property, otherwise the name of    *)
(* the first violated clause; "SKIP:..." if the row is outside the scope.  *)
(***************************************************************************)
\* C02: the reported choices are feasible grid values that maximise the objective and the
\* reported value is that maximum
RowChoice(M, t, Vn, row, tol) ==
  LET env == row.state @@ row.choice @@ ("_period" :> R(t))
  IN IF ~\E c \in IdxSet(ChoiceSeq(M)) : Feasible(M, EnvAt(M, row.state, c, t)) THEN "SKIP:no-feasible-choice"
     ELSE LET best == FeasMax(M, t, Vn, row.state)
          IN \* scope first: where the objective itself is undefined at this state (a transition into an excluded state; NaN
             \* from 0 * inf when the value arrays in use hold -inf next to the evaluation point) there is no maximiser to
             \* speak of, and what the code reports there -- feasible or not -- is outside the property
             IF best = OOS THEN "SKIP:transition-into-excluded-state"
             ELSE IF IsNaN(best) THEN "SKIP:ill-defined-arithmetic"
             \* known finding D18 (known_findings.json): every feasible choice has objective -inf (each leads to a state
             \* without feasible choice), the code reports value -inf and the FIRST grid combination, which need not be
             \* feasible.  Exactly that pattern is set aside; a wrong value or any other clause is still judged.
             ELSE IF best = NegInf /\ row.value = NegInf
                     /\ ((\E n \in ChoiceNames(M) : ~IsOnGrid(VarRec(M, n), row.choice[n]))
                         \/ ~PassAll(M, "filter", env) \/ ~PassAll(M, "constraint", env))
                THEN "SKIP:D18-infeasible-choice-reported-where-the-feasible-maximum-is-minus-infinity"
             ELSE IF \E n \in ChoiceNames(M) : ~IsOnGrid(VarRec(M, n), row.choice[n]) THEN "choice-off-grid"
             ELSE IF ~PassAll(M, "filter", env) THEN "filter"
             ELSE IF ~PassAll(M, "constraint", env) THEN "constraint"
             ELSE LET q == Q(M, t, Vn, env)
                  IN IF q = OOS THEN "SKIP:transition-into-excluded-state"
                     ELSE IF IsNaN(q) THEN "SKIP:ill-defined-arithmetic"
                     ELSE IF ~(Close(best, q, tol) \/ RLe(best, q)) THEN "not-maximal"
                     ELSE IF ~Close(best, row.value, tol) THEN "value"
                     ELSE ""
\* C03: the next row's states follow the law of motion
RowMotion(M, t, row, nxt) ==
  LET env == row.state @@ row.choice @@ ("_period" :> R(t))
      \* the labels the stochastic states were drawn to (0 where the next row does not hold a label: reported below)
      drawn == [st \in StochNames(M) |-> IF nxt.state[st][2] = 1 /\ nxt.state[st][1] \in 0..VarRec(M, st).n - 1 THEN nxt.state[st][1] ELSE 0]
  IN IF \E n \in DetNames(M) : NextDetGiven(M, env, drawn)[n] # nxt.state[n] THEN "law-of-motion"
     ELSE IF \E st \in StochNames(M) :
               ~(nxt.state[st][2] = 1 /\ nxt.state[st][1] \in 0..VarRec(M, st).n - 1) THEN "stoch-not-a-label"
     ELSE IF \E st \in StochNames(M) : ShockRow(M, st, env)[nxt.state[st][1] + 1] = R(0) THEN "zero-prob-draw"
     ELSE ""

\* is the state of a row a grid point?  then its index assignment
RowOnGrid(M, row) == \A n \in StateNames(M) : IsOnGrid(VarRec(M, n), row.state[n])
RowIdx(M, row) == [n \in StateNames(M) |-> GridIdx(VarRec(M, n), row.state[n])]
=============================================================================
