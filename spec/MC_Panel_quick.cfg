CONSTANTS IndexerPeriod = "next" DenseSelect = "row" Horizons = {2} Betas <- BetasQuick Curvatures = {1} WithStochastic = {TRUE} Mask0Set <- PanelMask0 Mask1Set <- PanelMask1Quick NAg = 2 Variant = "code"
SPECIFICATION FairSpec
PROPERTY Terminates
INVARIANT SolutionIsBellman
INVARIANT StepsAdmissible
INVARIANT DecisionsAdmissible
INVARIANT AgentIndependent
INVARIANT Period0IsInitial
INVARIANT PanelComplete
INVARIANT NoKeyReuse
INVARIANT DrawKeysDistinct
INVARIANT Period0DecidedBeforeAnyKey
INVARIANT EveryDrawHappened
CHECK_DEADLOCK FALSE
