CONSTANTS Models = {1, 2} ParamSets = {1, 2, 3} Inits = {1, 2} Seeds = {1, 2} MaxFuncs = 100 Depth = 100
SPECIFICATION TSpec
INVARIANT Report
INVARIANT NoHiddenState
CHECK_DEADLOCK FALSE
