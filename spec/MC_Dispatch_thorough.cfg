CONSTANTS Mode = "mc" MaxParams = 4 MaxCallParams = 4
SPECIFICATION Spec
INVARIANT AxisOrderIsListedOrder
INVARIANT BindingIsTotalOrRejected
CHECK_DEADLOCK FALSE
