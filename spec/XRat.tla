------------------------------- MODULE XRat -------------------------------
(***************************************************************************)
(* Extended rational numbers -- the number system of the whole lcm         *)
(* specification.                                                          *)
(*                                                                         *)
(*   <<n, d>>  with d > 0, gcd(|n|, d) = 1     a finite rational n/d       *)
(*   <<-1, 0>> = -inf     <<1, 0>> = +inf      <<0, 0>> = NaN              *)
(*                                                                         *)
(* The infinities and NaN follow IEEE-754 so that computations the code    *)
(* performs with -inf (value of an infeasible state) and the ill-defined   *)
(* ones (0 * -inf, inf - inf) surface in the specification exactly where   *)
(* they surface in a floating-point program.                               *)
(*                                                                         *)
(* TLC integers are 32 bit and TLC *reports* overflow, so every operator   *)
(* divides by gcds before multiplying; the families of models fed to the   *)
(* specification are bounded such that no overflow occurs.                 *)
(***************************************************************************)
EXTENDS Integers, Sequences, FiniteSets, FiniteSetsExt

RECURSIVE Gcd(_, _)
Gcd(a, b) == IF b = 0 THEN a ELSE Gcd(b, a % b)
Abs(x) == IF x < 0 THEN -x ELSE x

Norm(n, d) ==
  IF d = 0 THEN <<IF n > 0 THEN 1 ELSE IF n < 0 THEN -1 ELSE 0, 0>>
  ELSE LET g == Gcd(Abs(n), Abs(d))
           s == IF d < 0 THEN -1 ELSE 1
       IN <<s * (n \div g), s * (d \div g)>>

R(n)    == <<n, 1>>
NegInf  == <<-1, 0>>
PosInf  == <<1, 0>>
NaN     == <<0, 0>>
IsFin(x) == x[2] # 0
IsNaN(x) == x = NaN
Sgn(x)  == IF x[1] > 0 THEN 1 ELSE IF x[1] < 0 THEN -1 ELSE 0
IsXRat(x) == /\ x \in Seq(Int) /\ Len(x) = 2
             /\ (x[2] > 0 \/ (x[2] = 0 /\ x[1] \in {-1, 0, 1}))

RNeg(p) == <<-p[1], p[2]>>

RAdd(p, q) ==
  IF IsFin(p) /\ IsFin(q) THEN
     IF p[2] = q[2] THEN Norm(p[1] + q[1], p[2])
     ELSE LET g == Gcd(p[2], q[2])
          IN Norm(p[1] * (q[2] \div g) + q[1] * (p[2] \div g), (p[2] \div g) * q[2])
  ELSE IF IsNaN(p) \/ IsNaN(q) THEN NaN
  ELSE IF IsFin(p) THEN q
  ELSE IF IsFin(q) THEN p
  ELSE IF p = q THEN p ELSE NaN                   \* inf + (-inf) = NaN

RSub(p, q) == RAdd(p, RNeg(q))

RMul(p, q) ==
  IF IsFin(p) /\ IsFin(q) THEN
     IF p[1] = 0 \/ q[1] = 0 THEN <<0, 1>>
     ELSE LET g1 == Gcd(Abs(p[1]), q[2])
              g2 == Gcd(Abs(q[1]), p[2])
          IN <<(p[1] \div g1) * (q[1] \div g2), (p[2] \div g2) * (q[2] \div g1)>>
  ELSE IF IsNaN(p) \/ IsNaN(q) THEN NaN
  ELSE LET s == Sgn(p) * Sgn(q) IN IF s = 0 THEN NaN ELSE <<s, 0>>   \* 0 * inf = NaN

\* division of finite numbers, q # 0
RDiv(p, q) == IF q[1] < 0 THEN RMul(p, <<-q[2], -q[1]>>) ELSE RMul(p, <<q[2], q[1]>>)

RLe(p, q) ==
  IF IsFin(p) /\ IsFin(q) THEN
     IF p[2] = q[2] THEN p[1] <= q[1]
     ELSE LET g == Gcd(p[2], q[2]) IN p[1] * (q[2] \div g) <= q[1] * (p[2] \div g)
  ELSE IF IsNaN(p) \/ IsNaN(q) THEN FALSE
  ELSE IF p = NegInf THEN TRUE ELSE IF q = PosInf THEN TRUE ELSE FALSE
RLt(p, q) == RLe(p, q) /\ p # q
\* maximum / minimum as IEEE maximum: NaN is absorbing
RMax(x, y) == IF IsNaN(x) \/ IsNaN(y) THEN NaN ELSE IF RLe(x, y) THEN y ELSE x
RMin(x, y) == IF IsNaN(x) \/ IsNaN(y) THEN NaN ELSE IF RLe(x, y) THEN x ELSE y
RAbs(x) == IF x[1] < 0 THEN RNeg(x) ELSE x

\* floor of a finite rational (TLA+ \div rounds towards -infinity)
RFloor(p) == p[1] \div p[2]
\* rounding to the nearest integer, halves away from zero (lax.round / scipy.ndimage for integer-typed arrays)
RRoundAway(p) ==
  IF p[2] = 0 THEN p
  ELSE LET a == IF p[1] < 0 THEN -p[1] ELSE p[1]
           r == (2 * a + p[2]) \div (2 * p[2])
       IN <<IF p[1] < 0 THEN -r ELSE r, 1>>

\* sums / maxima over finite sets of indices
RSum(S, f(_)) == FoldSet(LAMBDA i, acc : RAdd(acc, f(i)), R(0), S)
RProd(S, f(_)) == FoldSet(LAMBDA i, acc : RMul(acc, f(i)), R(1), S)
RMaxOver(S, f(_)) == FoldSet(LAMBDA i, acc : RMax(acc, f(i)), NegInf, S)

(***************************************************************************)
(* Agreement of a value computed by the specification with a value         *)
(* observed in the implementation.  Non-finite values must be identical.   *)
(* Finite values must agree up to tol * (1 + |spec|); tol = <<0,1>> asks   *)
(* for equality.  `Exact' is recorded separately (it is what is expected   *)
(* in the exact families) but never decides a verdict.                     *)
(***************************************************************************)
\* the scale 1 + |spec| of the tolerance; for specification values with a large denominator the next integer above it
\* (at most twice the scale) keeps the product with the tolerance inside TLC's 32-bit integers
CloseScale(spec) == IF spec[2] > 4096 THEN R(2 + RFloor(RAbs(spec))) ELSE RAdd(R(1), RAbs(spec))
Close(spec, obs, tol) ==
  IF ~IsFin(spec) \/ ~IsFin(obs) THEN spec = obs
  ELSE spec = obs \/ RLe(RAbs(RSub(spec, obs)), RMul(tol, CloseScale(spec)))
=============================================================================
