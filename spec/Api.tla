------------------------------- MODULE Api -------------------------------
(***************************************************************************)
(* The public API as a state machine over function objects and a call      *)
(* history (C09, C06).                                                     *)
(*                                                                         *)
(*   funcs   sequence of function objects [model, target, jit] returned by *)
(*           get_lcm_function, in creation order                           *)
(*   hist    sequence of calls made so far, each with its arguments and    *)
(*           its denotation term                                           *)
(*   hidden  the state a call could write and a later call could read:     *)
(*           there is none -- no action changes it (purity)                *)
(*   held    per function object: the parameter set with which the user    *)
(*           has filled -- in place -- the params template that            *)
(*           get_lcm_function returned together with it (0: not filled).   *)
(*           The user may pass this object (via = "held") instead of a     *)
(*           fresh one; only the user's own FillTemplate changes it, no    *)
(*           call on any function object does.                             *)
(*                                                                         *)
(* The denotation term of a call depends on its arguments only:            *)
(*   solve(p) on a function of model m                    <<"V", m, p>>    *)
(*   simulate(p, init, vf_arr_list = result k, seed)                       *)
(*                                     <<"F", m, p, term(k), init, seed>>  *)
(*   solve_and_simulate(p, init, seed)                                     *)
(*                                  <<"F", m, p, <<"V", m, p>>, init, seed>>*)
(* so solve_and_simulate = solve followed by simulate (C06), a repeated    *)
(* call, a call on a re-created function object, a call with the other jit *)
(* flag or in another process denote the same result.                      *)
(***************************************************************************)
EXTENDS Integers, Sequences, FiniteSets, TLC

CONSTANTS Models, ParamSets, Inits, Seeds, MaxFuncs, Depth

VARIABLES funcs, hist, hidden, held
avars == <<funcs, hist, hidden, held>>
Targets == {"solve", "simulate", "solve_and_simulate"}

AInit == funcs = <<>> /\ hist = <<>> /\ hidden = "none" /\ held = <<>>
Vias == {"fresh", "held"}
ViaOK(f, p, via) == via = "held" => held[f] = p

Create(m, tg, jit) ==
  /\ Len(funcs) < MaxFuncs
  /\ funcs' = Append(funcs, [model |-> m, target |-> tg, jit |-> jit])
  /\ hist' = Append(hist, [op |-> "create", f |-> Len(funcs) + 1, model |-> m, target |-> tg, jit |-> jit,
                           p |-> 0, init |-> 0, seed |-> 0, vfrom |-> 0, via |-> "fresh", term |-> <<"none">>])
  /\ held' = Append(held, 0)
  /\ UNCHANGED hidden
\* the user writes parameter set p into the template object that came with function object f
FillTemplate(f, p) ==
  /\ held[f] # p
  /\ held' = [held EXCEPT ![f] = p]
  /\ hist' = Append(hist, [op |-> "fill", f |-> f, model |-> funcs[f].model, target |-> funcs[f].target, jit |-> funcs[f].jit,
                           p |-> p, init |-> 0, seed |-> 0, vfrom |-> 0, via |-> "held", term |-> <<"none">>])
  /\ UNCHANGED <<funcs, hidden>>

VTerm(m, p) == <<"V", m, p>>
CallSolve(f, p, via) ==
  /\ funcs[f].target = "solve" /\ ViaOK(f, p, via)
  /\ hist' = Append(hist, [op |-> "solve", f |-> f, model |-> funcs[f].model, target |-> "solve", jit |-> funcs[f].jit,
                           p |-> p, init |-> 0, seed |-> 0, vfrom |-> 0, via |-> via, term |-> VTerm(funcs[f].model, p)])
  /\ UNCHANGED <<funcs, hidden, held>>
\* simulate with the value arrays returned by the earlier solve call k of the same model
CallSimulate(f, p, i, s, k, via) ==
  /\ funcs[f].target = "simulate" /\ ViaOK(f, p, via)
  /\ k \in DOMAIN hist /\ hist[k].op = "solve" /\ hist[k].model = funcs[f].model
  /\ hist' = Append(hist, [op |-> "simulate", f |-> f, model |-> funcs[f].model, target |-> "simulate", jit |-> funcs[f].jit,
                           p |-> p, init |-> i, seed |-> s, vfrom |-> k, via |-> via,
                           term |-> <<"F", funcs[f].model, p, hist[k].term, i, s>>])
  /\ UNCHANGED <<funcs, hidden, held>>
CallSolveAndSimulate(f, p, i, s, via) ==
  /\ funcs[f].target = "solve_and_simulate" /\ ViaOK(f, p, via)
  /\ hist' = Append(hist, [op |-> "solve_and_simulate", f |-> f, model |-> funcs[f].model, target |-> "solve_and_simulate",
                           jit |-> funcs[f].jit, p |-> p, init |-> i, seed |-> s, vfrom |-> 0, via |-> via,
                           term |-> <<"F", funcs[f].model, p, VTerm(funcs[f].model, p), i, s>>])
  /\ UNCHANGED <<funcs, hidden, held>>

\* the combined target also accepts value arrays (those of the earlier solve call k): the arrays passed are the arrays in
\* use -- the call denotes what the simulate target denotes, not a simulation from a fresh solution
CallCombinedWithArrays(f, p, i, s, k, via) ==
  /\ funcs[f].target = "solve_and_simulate" /\ ViaOK(f, p, via)
  /\ k \in DOMAIN hist /\ hist[k].op = "solve" /\ hist[k].model = funcs[f].model
  /\ hist' = Append(hist, [op |-> "solve_and_simulate", f |-> f, model |-> funcs[f].model, target |-> "solve_and_simulate",
                           jit |-> funcs[f].jit, p |-> p, init |-> i, seed |-> s, vfrom |-> k, via |-> via,
                           term |-> <<"F", funcs[f].model, p, hist[k].term, i, s>>])
  /\ UNCHANGED <<funcs, hidden, held>>

\* A call the documented interface rejects: the simulate target without value arrays; initial states that do not name
\* exactly the model's states.  It raises ValueError, returns nothing, and leaves no trace in anything a later call could read
\* (no variable but the history changes): purity on the error path.
BadKinds == {"no-arrays", "missing-initial-state", "unknown-initial-state"}
RejectedCall(f, p, i, s, kind) ==
  /\ kind \in BadKinds
  /\ (kind = "no-arrays") <=> (funcs[f].target = "simulate")
  /\ funcs[f].target # "solve"
  /\ hist' = Append(hist, [op |-> "rejected", f |-> f, model |-> funcs[f].model, target |-> funcs[f].target, jit |-> funcs[f].jit,
                           p |-> p, init |-> i, seed |-> s, vfrom |-> 0, via |-> "fresh", term |-> <<"rejected", kind>>])
  /\ UNCHANGED <<funcs, hidden, held>>

ANext ==
  \/ \E m \in Models, tg \in Targets, j \in BOOLEAN : Create(m, tg, j)
  \/ \E f \in DOMAIN funcs, p \in ParamSets : FillTemplate(f, p)
  \/ \E f \in DOMAIN funcs, p \in ParamSets, v \in Vias : CallSolve(f, p, v)
  \/ \E f \in DOMAIN funcs, p \in ParamSets, i \in Inits, s \in Seeds, k \in DOMAIN hist, v \in Vias : CallSimulate(f, p, i, s, k, v)
  \/ \E f \in DOMAIN funcs, p \in ParamSets, i \in Inits, s \in Seeds, v \in Vias : CallSolveAndSimulate(f, p, i, s, v)
  \/ \E f \in DOMAIN funcs, p \in ParamSets, i \in Inits, s \in Seeds, k \in DOMAIN hist, v \in Vias : CallCombinedWithArrays(f, p, i, s, k, v)
  \/ \E f \in DOMAIN funcs, p \in ParamSets, i \in Inits, s \in Seeds, kind \in BadKinds : RejectedCall(f, p, i, s, kind)
ASpec == AInit /\ [][ANext]_avars

\* purity at the level of the specification
NoHiddenState == hidden = "none"
TermDependsOnArgumentsOnly ==
  \A a, b \in DOMAIN hist :
    (hist[a].op = hist[b].op /\ hist[a].op \notin {"create", "fill", "rejected"} /\ hist[a].model = hist[b].model /\ hist[a].p = hist[b].p
     /\ hist[a].init = hist[b].init /\ hist[a].seed = hist[b].seed
     /\ (hist[a].vfrom = 0 <=> hist[b].vfrom = 0)
     /\ (hist[a].vfrom # 0 => hist[hist[a].vfrom].term = hist[hist[b].vfrom].term))
    => hist[a].term = hist[b].term
\* C06 at the level of the specification: the combined target denotes solve followed by simulate
CombinedIsSolveThenSimulate ==
  \A a, b \in DOMAIN hist :
    (hist[a].op = "solve_and_simulate" /\ hist[a].vfrom = 0 /\ hist[b].op = "simulate" /\ hist[a].model = hist[b].model /\ hist[a].p = hist[b].p
     /\ hist[a].init = hist[b].init /\ hist[a].seed = hist[b].seed /\ hist[hist[b].vfrom].p = hist[b].p)
    => hist[a].term = hist[b].term
\* an object the user holds is changed by the user only: no call on any function object writes to it
HeldChangedByUserOnly == [][held' # held => hist'[Len(hist')].op \in {"create", "fill"}]_avars
\* a rejected call changes nothing but the history
RejectedCallsLeaveNoTrace == [][hist'[Len(hist')].op = "rejected" => UNCHANGED <<funcs, hidden, held>>]_avars
\* passing the held object or a fresh one with the same content denotes the same result (the term does not mention `via')
Bound == Len(hist) <= Depth
=============================================================================
