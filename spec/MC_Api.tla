------------------------------- MODULE MC_Api -------------------------------
(* Exhaustive check of Api for small constants and generation of call histories (tlc -simulate). *)
EXTENDS Api, Json, IOUtils
Dump == (Len(hist) = Depth) => PrintT(<<"HIST", ToJson(hist)>>)
=============================================================================
