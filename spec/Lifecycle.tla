------------------------------- MODULE Lifecycle -------------------------------
(***************************************************************************)
(* The life cycle of a model specification (C12):                          *)
(*                                                                         *)
(*   grids -> Model(...) -> get_lcm_function(...) -> first solve ->        *)
(*   first simulate -> simulate again from the solved arrays               *)
(*                                                                         *)
(* A specification is a valid base template plus a set of violated         *)
(* documented rules:                                                       *)
(*   R1 fewer than one period        R2 no utility function                *)
(*   R3 a state without transition   R4 a name used as state and choice    *)
(*   R5 non-grid / non-callable / non-dict entries                         *)
(*   R6 a stochastic transition on or depending on a continuous variable   *)
(*   R7 a filter with parameters     R8 an invalid grid                    *)
(* Each stage either advances or rejects.  The property: a specification   *)
(* that violates a rule is rejected with the library's initialization      *)
(* errors or a ValueError at one of the first three stages -- never later, *)
(* never silently; a specification that is accepted runs to completion.    *)
(***************************************************************************)
EXTENDS Naturals, Sequences, FiniteSets, TLC

Rules == {"R1", "R2", "R3", "R4", "R5", "R6", "R7", "R8"}
\* "resimulate": the solved value arrays are handed to the simulate target, twice (the same list object)
Stages == <<"grid", "model", "functions", "solve", "simulate", "resimulate">>
EarlyStages == {"grid", "model", "functions"}
AllowedErrors == {"GridInitializationError", "ModelInitilizationError", "ValueError"}

\* the stage at which the code base rejects each rule today (implementation-shaped; diagnostic only)
StageOfRule(r) == IF r = "R8" THEN "grid" ELSE IF r \in {"R1", "R2", "R3", "R4", "R5"} THEN "model" ELSE "functions"
StageIdx(s) == CHOOSE i \in DOMAIN Stages : Stages[i] = s
ExpectedStage(rules) ==
  IF rules = {} THEN "none"
  ELSE Stages[CHOOSE i \in 1..3 : (\E r \in rules : StageIdx(StageOfRule(r)) = i) /\ \A r \in rules : StageIdx(StageOfRule(r)) >= i]

(* ------------------------------------------------------------ state machine *)
VARIABLES rules, stage, outcome
lvars == <<rules, stage, outcome>>
LInit == rules \in SUBSET Rules /\ stage = 1 /\ outcome = "running"
Advance == /\ outcome = "running" /\ stage <= Len(Stages)
           /\ ~(\E r \in rules : StageOfRule(r) = Stages[stage])
           /\ stage' = stage + 1
           /\ outcome' = (IF stage = Len(Stages) THEN "completed" ELSE "running")
           /\ UNCHANGED rules
RejectAt == /\ outcome = "running" /\ stage <= Len(Stages)
            /\ \E r \in rules : StageOfRule(r) = Stages[stage]
            /\ outcome' = "rejected" /\ UNCHANGED <<rules, stage>>
LNext == Advance \/ RejectAt
LSpec == LInit /\ [][LNext]_lvars
\* liveness ("... or runs to completion"): under weak fairness every life cycle ends, rejected or completed
LFair == LSpec /\ WF_lvars(LNext)
EveryLifeCycleEnds == <>(outcome \in {"rejected", "completed"})
AcceptedRunsToCompletion == (rules = {}) ~> (outcome = "completed")

\* the property on the specification itself
RejectedEarlyOrCompleted ==
  /\ (outcome = "rejected" => rules # {} /\ Stages[stage] \in EarlyStages)
  /\ (outcome = "completed" => rules = {})
  /\ (rules # {} => stage <= 3)                       \* a violating specification never reaches a first call

(* ------------------------------------------------------------ beyond C12: what a rejection says, and Model.replace *)
\* The validation of Model(...) collects its complaints: ALL rules violated at the model stage are named in the one
\* ModelInitilizationError, not only the first.  RuleMarker: the phrase by which the message names a rule.
RuleMarker == [R1 |-> "Number of periods must be a positive integer",
               R2 |-> "Utility function is not defined",
               R3 |-> "no next state function was found",
               R4 |-> "overlapping names"]
\* mentions: the rules whose phrase occurs in the message of the rejecting error
ReportComplete(rs, mentions) == \A r \in rs \cap DOMAIN RuleMarker : r \in mentions
ReportSound(rs, mentions) == \A r \in mentions : r \in rs
\* Model.replace(field = value): a NEW model object with the field replaced and every other field kept, validated like
\* any model (an invalid replacement is rejected with the same error class); the original object is unchanged.
\* obs: [orig_unchanged, new_has_value, others_kept, is_new_object, invalid_rejected_cls]
ReplaceClause(obs) ==
  IF ~obs.orig_unchanged THEN "replace-mutates-original"
  ELSE IF ~obs.is_new_object THEN "replace-returns-the-same-object"
  ELSE IF ~obs.new_has_value THEN "replace-ignored"
  ELSE IF ~obs.others_kept THEN "replace-drops-other-fields"
  ELSE IF obs.invalid_rejected_cls # "ModelInitilizationError" THEN "replace-skips-validation"
  ELSE ""

(* ------------------------------------------------------------ judging a recorded life cycle *)
\* trace: sequence of [stage, ok, cls]; the first failing stage ends the trace
LifecycleClause(rs, trace) ==
  LET errs == {i \in DOMAIN trace : ~trace[i].ok}
  IN IF rs # {} THEN
        IF errs = {} THEN "silent-accept"
        ELSE LET i == CHOOSE i \in errs : \A j \in errs : i <= j
             IN IF trace[i].stage \notin EarlyStages THEN "late-rejection"
                ELSE IF trace[i].cls \notin AllowedErrors THEN "wrong-error-class"
                ELSE ""
     ELSE IF errs = {} THEN ""
     ELSE LET i == CHOOSE i \in errs : \A j \in errs : i <= j
          IN IF trace[i].stage \in EarlyStages /\ trace[i].cls \in AllowedErrors THEN "REJECTED"   \* not accepted: outside the converse
             ELSE "crash-after-accept"
=============================================================================
