------------------------------- MODULE LogSumExp -------------------------------
(***************************************************************************)
(* Extreme-value aggregation of choice values (lcm.discrete_problem), C20: *)
(*     emax(v; s) = s * log( SUM_i exp(v_i / s) )                          *)
(* TLA+ has no exp/log, so the property is decided                         *)
(*  (a) by equality on the exact family v_i = s * ln2 * m_i (m_i integer)  *)
(*      for which SUM_i 2^(m_i - M) = 2^k  and  emax = s * ln2 * (M + k);  *)
(*  (b) by the laws the property lists, on normalised observations:        *)
(*      finiteness, max <= emax <= max + s ln n, shift by c, layout along  *)
(*      axes = layout as segments (rational upper bounds for ln n).        *)
(***************************************************************************)
EXTENDS XRat, TLC

MaxOfInts(ms) == CHOOSE m \in {ms[i] : i \in DOMAIN ms} : \A i \in DOMAIN ms : ms[i] <= m
RECURSIVE Pow2(_)
Pow2(k) == IF k = 0 THEN R(1) ELSE IF k > 0 THEN RMul(R(2), Pow2(k - 1)) ELSE RMul(<<1, 2>>, Pow2(k + 1))
\* SUM_i 2^(m_i - M) for the group of integers ms (terms below 2^-24 are below float32 resolution
\* next to the leading 1; the family keeps m_i - M >= -12)
Pow2Sum(ms) == LET M == MaxOfInts(ms) IN RSum(DOMAIN ms, LAMBDA i : Pow2(ms[i] - M))
IsPow2(x) == x[2] = 1 /\ \E k \in 0..10 : Pow2(k) = x
Log2(x) == CHOOSE k \in 0..10 : Pow2(k) = x
\* closed form of the exact family, in units of s * ln2, relative to the maximum M
ExactFamilyK(ms) == Log2(Pow2Sum(ms))

\* rational upper bounds of ln n (n = number of choices)
LnUpper(n) ==      \* dyadic (denominator 4096) so that comparisons with the observations stay small
  CASE n = 1 -> <<0, 1>> [] n = 2 -> <<2840, 4096>> [] n = 3 -> <<4501, 4096>> [] n = 4 -> <<5679, 4096>>
    [] n = 5 -> <<6593, 4096>> [] n = 6 -> <<7340, 4096>> [] n = 7 -> <<7971, 4096>> [] n = 8 -> <<8518, 4096>>
    [] n = 9 -> <<9000, 4096>> [] n = 10 -> <<9432, 4096>> [] n = 12 -> <<10179, 4096>> [] n = 16 -> <<11357, 4096>>
    [] OTHER -> <<3, 1>>                        \* ln n < 3 for n <= 20

\* (the observations are normalised quantities of order 1: one that is beyond +-1024 fails outright -- and is kept away from
\* TLC's 32-bit arithmetic, where it would overflow and turn a wrong result of the code into an evaluation error)
Within(x, lo, hi, tol) == IsFin(x) /\ (x[1] \div x[2]) \in -1024..1024 /\ RLe(RSub(lo, tol), x) /\ RLe(x, RAdd(hi, tol))
=============================================================================
