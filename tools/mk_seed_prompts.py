#!/usr/bin/env python3
"""tools/mk_seed_prompts.py <suffix> <P1> <P2> ...: write /tmp/seed/<P><suffix>.prompt for sub-agents that seed breaking changes.
The prompt holds the property's text and the one-line descriptions of the changes already collected (seeded/*/meta.json),
nothing else from /verif."""
import glob
import json
import os
import sys

root = os.path.dirname(os.path.dirname(os.path.abspath(__file__)))
tmpl = open(os.path.join(root, "tools", "seed_prompt.txt")).read()
taken = [json.load(open(d))["what"] for d in sorted(glob.glob(os.path.join(root, "seeded", "*", "meta.json")))]
tk = "\n".join(f"({i + 1}) {w}" for i, w in enumerate(taken))
props = {json.loads(l)["id"]: json.loads(l) for l in open(os.path.join(root, "properties.jsonl"))}
os.makedirs("/tmp/seed", exist_ok=True)
for p in sys.argv[2:]:
    pr = props[p]
    text = f"{pr['title']}\n{pr['statement']}\nQuantified over: {pr['quantifier']['text']}"
    open(f"/tmp/seed/{p}{sys.argv[1]}.prompt", "w").write(tmpl.replace("@ID@", p + sys.argv[1]).replace("@PROPERTY@", text).replace("@TAKEN@", tk))
print(len(taken), "taken mechanisms;", len(sys.argv) - 2, "prompts")
