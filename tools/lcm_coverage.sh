#!/bin/bash
# tools/lcm_coverage.sh [checks...]: line/branch coverage of /repo/src/lcm reached by the quick checks' drivers.
# A measurement for DESIGN.md (which code the conformance binding never observes), not a check.  Scratch output only.
cd "$(dirname "$0")/.." || exit 2
checks=${*:-$(python3 -c "import json;print(' '.join(c['property_id'] for c in json.load(open('MANIFEST.json'))['checks']))")}
export VERIF_COVERAGE=/tmp/verif-cov-$$ VERIF_SCRATCH=/tmp/verif-cov-$$/scratch
mkdir -p "$VERIF_COVERAGE" "$VERIF_SCRATCH"
for c in $checks; do ./check "$c" 2>&1 | tail -1; done
cd "$VERIF_COVERAGE" && /venv/bin/python -m coverage combine --data-file=cov.all cov.* >/dev/null 2>&1
/venv/bin/python -m coverage report --data-file=cov.all --show-missing --skip-empty 2>&1 | tee /verif/out/lcm_coverage.txt
rm -rf "$VERIF_COVERAGE"
