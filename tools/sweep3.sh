#!/bin/bash
cd "$(dirname "$0")/.." || exit 2
export VERIF_SCRATCH=/tmp/verif-sweep3-$$
tools/seedsweep.sh 21 32 C20 C15 C14 C16 C18 C19 C17
tools/seedsweep.sh 21 24 C04 C12 C13 C03
