#!/usr/bin/env python3
"""Automatic mutation sweep over src/lcm: which single-token changes does no check notice?

    tools/mutsweep.py --n 60 [--seed S] [--files simulate.py,argmax.py] [--list] [--all-checks] [--out out/mutsweep.jsonl]

Complements the hand-written catalogue (tools/mutants.py) and the changes seeded by sub-agents (seeded/): candidates are
generated mechanically from the AST of every module (comparison / arithmetic / boolean operator swaps, constants +-1,
True<->False, slices shifted, `not` dropped, max<->min, repeat<->tile, first<->last element, swapped call arguments,
dropped keyword arguments, `axis=` changed, reversed iteration), a seeded sample is applied to a scratch copy of src/
(outside /repo and /verif, removed afterwards) and the quick checks mapped to the mutated module run against it
(PYTHONPATH override, scratch evidence) until one reports a VIOLATION.  A mutant none of the mapped checks notices is
run against all 20 checks with --all-checks.  Output: one JSON line per mutant.  Nothing in /repo is touched.

Survivors are either equivalent mutants (dead code, defensive arguments, error-message text) or gaps; they are triaged by
hand and the triage is recorded in DESIGN.md."""
from __future__ import annotations

import argparse
import ast
import copy
import json
import os
import random
import shutil
import subprocess
import sys
import tempfile
import time
from pathlib import Path

ROOT = Path(__file__).resolve().parent.parent
SRC = Path("/repo/src")
ALL = [f"C{i:02d}" for i in range(1, 21)]
MAP = {
    "argmax.py": ["C18", "C02"],
    "discrete_problem.py": ["C18", "C20", "C01"],
    "dispatchers.py": ["C19", "C01", "C02"],
    "functools.py": ["C19", "C01", "C07"],
    "function_representation.py": ["C14", "C01"],
    "grid_helpers.py": ["C15", "C16", "C01"],
    "grids.py": ["C16", "C12", "C01"],
    "ndimage.py": ["C15", "C14", "C01"],
    "entry_point.py": ["C01", "C02", "C06", "C09", "C12"],
    "model_functions.py": ["C01", "C02", "C07", "C11", "C03"],
    "next_state.py": ["C03", "C01", "C04"],
    "random_choice.py": ["C04", "C03"],
    "simulate.py": ["C02", "C03", "C13", "C08", "C04", "C06"],
    "solve_brute.py": ["C01", "C05", "C11"],
    "state_space.py": ["C17", "C01", "C05"],
    "user_model.py": ["C12", "C16"],
    "mark.py": ["C03", "C12"],
    "interfaces.py": ["C01", "C14"],
    "input_processing/create_params_template.py": ["C07", "C12"],
    "input_processing/process_model.py": ["C07", "C01", "C03", "C12"],
    "input_processing/util.py": ["C17", "C01", "C05", "C10", "C12"],
}
CMP = {ast.Lt: ast.LtE, ast.LtE: ast.Lt, ast.Gt: ast.GtE, ast.GtE: ast.Gt, ast.Eq: ast.NotEq, ast.NotEq: ast.Eq,
       ast.Is: ast.IsNot, ast.IsNot: ast.Is, ast.In: ast.NotIn, ast.NotIn: ast.In}
BIN = {ast.Add: ast.Sub, ast.Sub: ast.Add, ast.Mult: ast.Add, ast.Div: ast.Mult, ast.FloorDiv: ast.Mult, ast.Mod: ast.FloorDiv,
       ast.BitAnd: ast.BitOr, ast.BitOr: ast.BitAnd}
NAMES = {"max": "min", "min": "max", "repeat": "tile", "tile": "repeat", "argmax": "argmin", "any": "all", "all": "any",
         "logical_and": "logical_or", "logical_or": "logical_and", "floor": "ceil", "cumsum": "cumprod", "segment_max": "segment_min",
         "minimum": "maximum", "maximum": "minimum", "zeros": "ones", "ones": "zeros", "sorted": "list", "prod": "sum"}


class Finder(ast.NodeVisitor):
    """Enumerates mutation sites; site k is reproduced by Mutator(k)."""

    def __init__(self):
        self.sites = []
        self.in_raise = 0

    def add(self, node, kind, desc):
        self.sites.append((getattr(node, "lineno", 0), kind, desc))

    def generic_visit(self, node):
        if isinstance(node, ast.Raise):
            return          # error messages / exception construction are not behaviour a property speaks about
        if isinstance(node, ast.Expr) and isinstance(node.value, ast.Constant) and isinstance(node.value.value, str):
            return          # docstring
        if isinstance(node, ast.Call) and isinstance(node.func, ast.Attribute) and isinstance(node.func.value, ast.Name) \
                and node.func.value.id in ("_verif", "logger"):
            return          # instrumentation, logging
        if isinstance(node, ast.AnnAssign):
            if node.value is not None:
                self.visit(node.value)
            return
        for k, d in sites_of(node):
            self.add(node, k, d)
        super().generic_visit(node)


def sites_of(node):  # noqa: C901, PLR0912
    out = []
    if isinstance(node, ast.Compare):
        for i, op in enumerate(node.ops):
            if type(op) in CMP:
                out.append((f"cmp{i}", f"{type(op).__name__}->{CMP[type(op)].__name__}"))
    elif isinstance(node, ast.BinOp) and type(node.op) in BIN:
        if not (isinstance(node.op, ast.Mod) and isinstance(node.left, ast.Constant) and isinstance(node.left.value, str)):
            out.append(("bin", f"{type(node.op).__name__}->{BIN[type(node.op)].__name__}"))
    elif isinstance(node, ast.BoolOp):
        out.append(("bool", "and<->or"))
    elif isinstance(node, ast.UnaryOp) and isinstance(node.op, ast.Not):
        out.append(("not", "drop not"))
    elif isinstance(node, ast.UnaryOp) and isinstance(node.op, (ast.USub, ast.Invert)):
        out.append(("neg", "drop unary -/~"))
    elif isinstance(node, ast.Constant):
        if isinstance(node.value, bool):
            out.append(("const", f"{node.value}->{not node.value}"))
        elif isinstance(node.value, int):
            out.append(("const", f"{node.value}->{node.value + 1}"))
            if node.value != 0:
                out.append(("const-", f"{node.value}->{node.value - 1}"))
        elif isinstance(node.value, float):
            out.append(("const", f"{node.value}->{node.value * 2 + 1}"))
    elif isinstance(node, ast.Attribute) and node.attr in NAMES:
        out.append(("attr", f".{node.attr}->.{NAMES[node.attr]}"))
    elif isinstance(node, ast.Name) and node.id in NAMES and isinstance(node.ctx, ast.Load):
        out.append(("name", f"{node.id}->{NAMES[node.id]}"))
    elif isinstance(node, ast.Slice):
        if node.lower is not None or node.upper is not None:
            out.append(("slice", "swap/shift slice bounds"))
    elif isinstance(node, ast.Call):
        if len(node.args) >= 2 and not any(isinstance(a, ast.Starred) for a in node.args[:2]):
            out.append(("swapargs", "swap first two positional arguments"))
        for i, kw in enumerate(node.keywords):
            if kw.arg is not None and kw.arg not in ("strict",):
                out.append((f"dropkw{i}", f"drop keyword {kw.arg}"))
    elif isinstance(node, ast.If):
        out.append(("ifnot", "negate if-condition"))
    elif isinstance(node, ast.IfExp):
        out.append(("ifexp", "swap branches of conditional expression"))
    elif isinstance(node, ast.For):
        out.append(("forrev", "iterate in reverse"))
    elif isinstance(node, ast.Subscript) and isinstance(node.slice, ast.Constant) and isinstance(node.slice.value, int):
        pass  # covered by const
    elif isinstance(node, ast.Return) and node.value is not None and isinstance(node.value, ast.Tuple) and len(node.value.elts) == 2:
        out.append(("retswap", "swap the two returned values"))
    elif isinstance(node, (ast.ListComp, ast.GeneratorExp, ast.DictComp, ast.SetComp)):
        if node.generators[0].ifs:
            out.append(("compif", "drop comprehension filter"))
    return out


class Mutator(ast.NodeTransformer):
    def __init__(self, k):
        self.k = k
        self.i = -1
        self.done = None

    def generic_visit(self, node):  # noqa: C901, PLR0912
        if isinstance(node, ast.Raise):
            return node
        if isinstance(node, ast.Expr) and isinstance(node.value, ast.Constant) and isinstance(node.value.value, str):
            return node
        if isinstance(node, ast.Call) and isinstance(node.func, ast.Attribute) and isinstance(node.func.value, ast.Name) \
                and node.func.value.id in ("_verif", "logger"):
            return node
        if isinstance(node, ast.AnnAssign):
            if node.value is not None:
                node.value = self.visit(node.value)
            return node
        new = node
        for kind, _ in sites_of(node):
            self.i += 1
            if self.i == self.k:
                new = apply(node, kind)
                self.done = kind
        if new is not node:
            return new          # do not descend into the replaced node (indices beyond k are irrelevant)
        return super().generic_visit(node)


def apply(node, kind):  # noqa: C901, PLR0911, PLR0912
    n = copy.deepcopy(node)
    if kind.startswith("cmp"):
        i = int(kind[3:])
        n.ops[i] = CMP[type(n.ops[i])]()
    elif kind == "bin":
        n.op = BIN[type(n.op)]()
    elif kind == "bool":
        n.op = ast.Or() if isinstance(n.op, ast.And) else ast.And()
    elif kind in ("not", "neg"):
        return n.operand
    elif kind == "const":
        v = n.value
        n.value = (not v) if isinstance(v, bool) else (v + 1 if isinstance(v, int) else v * 2 + 1)
    elif kind == "const-":
        n.value = n.value - 1
    elif kind == "attr":
        n.attr = NAMES[n.attr]
    elif kind == "name":
        n.id = NAMES[n.id]
    elif kind == "slice":
        if n.lower is not None and n.upper is None:
            n.upper, n.lower = ast.UnaryOp(ast.USub(), n.lower), None
        elif n.upper is not None and n.lower is None:
            n.lower, n.upper = n.upper, None
        else:
            n.lower = ast.BinOp(n.lower, ast.Add(), ast.Constant(1))
    elif kind == "swapargs":
        n.args[0], n.args[1] = n.args[1], n.args[0]
    elif kind.startswith("dropkw"):
        del n.keywords[int(kind[6:])]
    elif kind == "ifnot":
        n.test = ast.UnaryOp(ast.Not(), n.test)
    elif kind == "ifexp":
        n.body, n.orelse = n.orelse, n.body
    elif kind == "forrev":
        n.iter = ast.Call(ast.Name("reversed", ast.Load()), [ast.Call(ast.Name("list", ast.Load()), [n.iter], [])], [])
    elif kind == "retswap":
        n.value.elts = n.value.elts[::-1]
    elif kind == "compif":
        n.generators[0].ifs = []
    return ast.fix_missing_locations(n)


def strip(tree):
    """Annotations of parameters and results are not behaviour (dataclass field annotations are kept)."""
    for n in ast.walk(tree):
        if isinstance(n, (ast.FunctionDef, ast.AsyncFunctionDef)):
            n.returns = None
            for a in n.args.posonlyargs + n.args.args + n.args.kwonlyargs + [x for x in (n.args.vararg, n.args.kwarg) if x]:
                a.annotation = None
    return tree


def candidates(files):
    out = []
    for rel in files:
        p = SRC / "lcm" / rel
        tree = strip(ast.parse(p.read_text()))
        f = Finder()
        f.visit(tree)
        out += [(rel, k, ln, kind, desc) for k, (ln, kind, desc) in enumerate(f.sites)]
    return out


def mutate(rel, k):
    tree = strip(ast.parse((SRC / "lcm" / rel).read_text()))
    m = Mutator(k)
    tree = m.visit(tree)
    assert m.done is not None, (rel, k)
    return ast.unparse(ast.fix_missing_locations(tree))


def sh(cmd, **kw):
    return subprocess.run(cmd, capture_output=True, text=True, check=False, **kw)


def run_checks(scr, checks, stop_at_first=True):
    res = {}
    for c in checks:
        env = dict(os.environ, PYTHONPATH=str(scr / "src"), VERIF_SCRATCH=str(scr / "_scratch"))
        t0 = time.time()
        try:
            rc = sh([str(ROOT / "check"), c], env=env, timeout=3600)
            code, out = rc.returncode, rc.stdout
            err = rc.stderr[-300:] if code == 2 else ""
        except subprocess.TimeoutExpired:
            code, out, err = 2, "", "timeout"
        cl = sorted({l.strip().split()[0] for l in out.splitlines() if l.strip().startswith("clause=")})
        res[c] = {"exit": code, "violations": sum(1 for l in out.splitlines() if l.startswith("VIOLATION")),
                  "clauses": cl[:6], "s": round(time.time() - t0)}
        if err:
            res[c]["err"] = err
        if code == 1 and stop_at_first:
            break
    return res


def main():  # noqa: C901
    ap = argparse.ArgumentParser()
    ap.add_argument("--n", type=int, default=40)
    ap.add_argument("--seed", type=int, default=0)
    ap.add_argument("--files", default=",".join(MAP))
    ap.add_argument("--list", action="store_true")
    ap.add_argument("--all-checks", action="store_true", help="run every check on mutants the mapped checks do not notice")
    ap.add_argument("--baseline", action="store_true", help="run the pinned baseline tests on survivors")
    ap.add_argument("--out", default=str(ROOT / "out" / "mutsweep.jsonl"))
    ap.add_argument("--only", help="rel:k, run exactly this mutant")
    a = ap.parse_args()
    files = a.files.split(",")
    cands = candidates(files)
    if a.list:
        by = {}
        for rel, *_ in cands:
            by[rel] = by.get(rel, 0) + 1
        print(json.dumps(by, indent=1), len(cands))
        return 0
    rng = random.Random(a.seed)
    if a.only:
        rel, k = a.only.rsplit(":", 1)
        sample = [c for c in cands if c[0] == rel and c[1] == int(k)]
    else:
        # stratified by file: proportional to the square root of the number of sites (small modules are not starved)
        by = {}
        for c in cands:
            by.setdefault(c[0], []).append(c)
        w = {f: len(v) ** 0.5 for f, v in by.items()}
        tot = sum(w.values())
        sample = []
        for f, v in by.items():
            kf = max(1, round(a.n * w[f] / tot))
            sample += rng.sample(v, min(kf, len(v)))
        rng.shuffle(sample)
        sample = sample[: a.n]
    outp = Path(a.out)
    outp.parent.mkdir(exist_ok=True)
    for rel, k, ln, kind, desc in sample:
        scr = Path(tempfile.mkdtemp(prefix="mutsweep-"))
        rec = {"file": rel, "k": k, "line": ln, "kind": kind, "desc": desc}
        try:
            shutil.copytree(SRC, scr / "src", ignore=shutil.ignore_patterns("__pycache__", "*.egg-info"))
            try:
                (scr / "src" / "lcm" / rel).write_text(mutate(rel, k))
            except Exception as e:  # noqa: BLE001
                rec["status"] = f"mutation-error {e}"
                continue
            rec["src_line"] = (SRC / "lcm" / rel).read_text().splitlines()[ln - 1].strip()[:120] if ln else ""
            env = dict(os.environ, PYTHONPATH=str(scr / "src"), JAX_PLATFORMS="cpu")
            r = sh(["/venv/bin/python", "-c", "import lcm, lcm.entry_point, lcm.simulate; print(lcm.__file__)"], env=env, timeout=300)
            if r.returncode or str(scr) not in r.stdout:
                rec["status"] = "import-error"
                continue
            res = run_checks(scr, MAP[rel])
            rec["checks"] = res
            if any(v["exit"] == 1 for v in res.values()):
                rec["status"] = "detected"
            else:
                if a.all_checks:
                    rest = [c for c in ALL if c not in res]
                    res2 = run_checks(scr, rest)
                    rec["checks"].update(res2)
                if any(v["exit"] == 1 for v in rec["checks"].values()):
                    rec["status"] = "detected-elsewhere"
                elif any(v["exit"] == 2 for v in rec["checks"].values()):
                    rec["status"] = "machinery-error"
                else:
                    rec["status"] = "survived"
                if a.baseline and rec["status"] != "detected-elsewhere":
                    env0 = dict(env)
                    env0.pop("LCM_VERIF", None)
                    rt = sh(["/venv/bin/python", "-m", "pytest", "-q", "-x", "-p", "no:cacheprovider", "--timeout=900",
                             "--continue-on-collection-errors", "tests"], env=env0, cwd="/repo", timeout=3600)
                    rec["tests_tail"] = rt.stdout.strip().splitlines()[-1][:200] if rt.stdout.strip() else rt.stderr[-200:]
        finally:
            shutil.rmtree(scr, ignore_errors=True)
            with outp.open("a") as fh:
                fh.write(json.dumps(rec) + "\n")
            print(rec.get("status"), rel, ln, kind, desc, {c: v["exit"] for c, v in rec.get("checks", {}).items()}, flush=True)
    return 0


if __name__ == "__main__":
    sys.exit(main())
