#!/bin/bash
# tools/seedsweep.sh <first> <last> [checks...]: run quick checks for several seeds, report non-zero exits.
# Evidence and replays go to a scratch directory (VERIF_SCRATCH), the committed evidence is not touched.
cd "$(dirname "$0")/.." || exit 2
a=$1; b=$2; shift 2
checks=${*:-$(python3 -c "import json;print(' '.join(c['property_id'] for c in json.load(open('MANIFEST.json'))['checks']))")}
export VERIF_SCRATCH=${VERIF_SCRATCH:-/tmp/verif-sweep-$$}
mkdir -p "$VERIF_SCRATCH"
for s in $(seq "$a" "$b"); do
  for c in $checks; do
    out=$(VERIF_SEED=$s ./check "$c" 2>&1); rc=$?
    echo "seed=$s $c rc=$rc $(echo "$out" | tail -1)"
    if [ $rc -ne 0 ]; then echo "$out" | grep -E "VIOLATION|clause=|MACHINERY" | head -8; fi
  done
done
echo "replays (if any) under $VERIF_SCRATCH/replays"
