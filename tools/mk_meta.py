#!/usr/bin/env python3
"""tools/mk_meta.py <table.json>: write seeded/<id>/meta.json from a table {id: {what, needs, first: <result json of the first
evaluation>, final: <result json of the evaluation with the current checks>, round}} (results as printed by tools/seeded.py)."""
import json
import sys
from pathlib import Path

ROOT = Path(__file__).resolve().parent.parent


def load(p):
    t = Path(p).read_text()
    return json.loads(t[t.index("{"):])


def main():
    tab = json.loads(Path(sys.argv[1]).read_text())
    for sid, e in tab.items():
        first = load(ROOT / e["first"])
        final = load(ROOT / e["final"]) if e.get("final") else first
        prop = sid[:3]
        det = {c: {k: v for k, v in r.items() if k in ("exit", "violations", "clauses")} for c, r in final["checks"].items()}
        missed_first = first["checks"][prop]["exit"] != 1 or bool(e.get("arrival_note"))
        meta = {
            "property": prop,
            "what": e["what"],
            "needs_to_manifest": e["needs"],
            "confirmed": {"demo_exit_unpatched": first["demo_unpatched_exit"], "demo_exit_patched": first["demo_patched_exit"],
                          "repository_tests_with_patch": "no previously passing test fails (" + first.get("tests_tail", "") + "; 3 failed / 318 passed on the unmodified tree)"},
            "ran": f"tools/seeded.py seeded/{sid} --checks {','.join(final['checks'])} --tests",
            "detect_with": [c for c, r in final["checks"].items() if r["exit"] == 1],
            "detected": det,
            "source": e["round"],
        }
        if e.get("arrival_note"):
            meta["history"] = e["arrival_note"]
        elif missed_first:
            meta["history"] = "missed by the check as it was when the seed arrived; detected after the strengthening described in DESIGN.md §11.5"
        (ROOT / "seeded" / sid / "meta.json").write_text(json.dumps(meta, indent=1))
        print(sid, "missed-on-arrival" if missed_first else "detected-on-arrival", meta["detect_with"])


if __name__ == "__main__":
    main()
