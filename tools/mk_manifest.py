#!/usr/bin/env python3
"""Regenerate MANIFEST.json from the table below (single source of truth for the interface)."""
import json
import subprocess
from pathlib import Path

ROOT = Path(__file__).resolve().parent.parent
PROPS = [json.loads(l)["id"] for l in open(ROOT / "properties.jsonl")]

TV = "tlc-trace"
CHECKS = {
    "C01": dict(
        text="Every entry of every value array returned by the real solve function (eager and jitted) for seeded random models "
             "of 10 feature strata is compared by TLC with the exact rational Bellman solution of spec/Bellman.tla (trace "
             "validation with total verdicts); MC_Solve checks the implementation-shaped backward loop against the declarative "
             "equation on a family of models defined in TLA+ (and, under weak fairness, that the loop terminates with every period "
             "solved). Every fifth case runs with jax_enable_x64.",
        note="Trusted: TLC, the TLA+ reference semantics, the MDL->Python code generator (harness/mdl.py). Small grids "
             "(<= 1500 state-choice cells per period, T <= 4); exact dyadic families + tolerance families.",
        technique="TLA+ reference semantics (exact rationals) + TLC trace validation of recorded solve results", ref="§6 C01"),
    "C02": dict(
        text="Every row of every simulated frame (1-8 agents, on and off the grid, all mixes of filtered/unfiltered discrete and "
             "0-2 continuous choices, value arrays from solve / the combined target / arbitrary arrays handed to either target; every "
             "fifth case in float64 mode) is judged by TLC: grid "
             "values, filters and constraints at the logged state, Q(choice) = max Q, value = max Q. Thorough: MC_Sim checks the "
             "implementation-shaped forward step of spec/Simulate.tla against the declarative rule for every model of "
             "spec/Family.tla and every two-agent batch (MC_Sim_d3.cfg = the repaired defect D3 is found by TLC). Strata added from "
             "seeded changes include: lower-bound constraints, near-ties, 17 x 17 continuous choice grids, models in which the period "
             "enters only through an auxiliary function (T >= 3), beta outside [0, 1], default-valued parameters, and 12 agents "
             "embedded in a batch of 70001 (kept rows judged one by one).",
        note="Trusted: TLC, spec/Bellman.tla (Q, FeasMax), MDL code generator. Ties are spec nondeterminism; values compared "
             "up to a rounding-level tolerance, never arg-max identity.",
        technique="TLC trace validation of recorded simulation rows against the declarative decision rule", ref="§6 C02"),
    "C03": dict(
        text="TLC validates every consecutive pair of rows of every simulated agent against the model's transition functions "
             "(exact equality for deterministic states; positive probability in the signature-order row for stochastic states; "
             "period-0 rows equal the supplied initial states); a stratum has stochastic states that are not among their own "
             "dependencies (every agent's label must have positive probability in the row of its OWN variables). Thorough: MC_Panel model-checks the whole forward loop (Decide, "
             "SplitKeys, Draw, Advance, Frame composed from Simulate, Keys and Pipeline) over several periods and every stochastic "
             "branch against the declarative transition relation Pipeline!SimStepOK.",
        note="Trusted: TLC, Mdl!CallF, Bellman!ShockRow. One-hot transition rows make the stochastic clause exact.",
        technique="TLC trace validation of recorded state transitions", ref="§6 C03"),
    "C05": dict(
        text="For base models with pairwise different grid sizes and for many (thorough: all) declaration orders of states, "
             "choices and functions, TLC compares list length, array shapes and every entry with StateSpace!Shape/Flat of the "
             "exact solution. A layout-only stratum uses continuous grids finer than float32 resolution (coinciding nodes): "
             "list length and shapes only.",
        note="Trusted: TLC, StateSpace!LayoutSeq (transcribes the wording of C05), asymmetric utilities generated per model.",
        technique="TLC trace validation of shapes and entries under the specified layout, enumerated declaration orders", ref="§6 C05"),
    "C06": dict(
        text="For on-grid agents TLC checks that every reported value equals the entry of the observed solve array at the index "
             "the layout contract gives, and that solve_and_simulate returns the same frame as solve followed by simulate (also on "
             "shared function objects with parameters updated in place, with unnormalised transition rows, and for models in which "
             "the period enters only through an auxiliary function, where the decision clauses of C02 are judged too).",
        note="Code-vs-code relation judged by TLC through the specification's layout; no tolerance on states/choices.",
        technique="TLC trace validation of relations between recorded solve arrays and simulation frames", ref="§6 C06"),
    "C07": dict(
        text="TLC compares the returned template with Mdl!Template (keys, per-function parameter sets, transition-array shapes "
             "in signature order) and validates solve/simulate output of models with colliding parameter names, permuted "
             "stochastic dependencies, two stochastic states, keyword-only and default-valued own parameters, aliased function "
             "objects and auxiliary functions of auxiliary functions against semantics that route parameters by function name.",
        note="Trusted: TLC, Mdl!Template/CallF. Routing is decided behaviourally through C01-C03 clauses.",
        technique="TLC trace validation of template structure + behavioural routing through the reference semantics", ref="§6 C07"),
    "C13": dict(
        text="TLC checks row count, (period, initial_state_id) index in period-major order, the column set, _period and every "
             "additional-target column (recomputed by the specification at the row) for 1/2/5 agents and T in 1..3, and for 12 agents "
             "kept from panels of 20011 / 70001 agents (whole-frame row count checked too). Thorough: "
             "MC_Panel (the forward loop as one state machine) establishes PanelComplete for every model of spec/Family.tla, every "
             "two-agent batch and every stochastic branch, terminates under weak fairness, and refutes the agent-major variant.",
        note="Trusted: TLC, Pipeline!PanelIndex/PanelColumns/TargetVal.",
        technique="TLC trace validation of the recorded frame structure and target columns", ref="§6 C13"),
    "C08": dict(
        text="For deterministic models a reference batch and its permutation, a shuffled subset, a batch with duplicated agents "
             "and the batch with reversed initial_states key order are simulated; TLC (TracePipeline!RelSimFail) requires "
             "identical per-agent paths; for stochastic models identical period-0 decisions and values. Further batches: one agent of "
             "every restricted state alone, all agents of one restricted state, and 12 agents alone vs. embedded in batches of 20011 / "
             "70001 agents. Thorough: MC_Sim invariant "
             "AgentIndependent (an agent's result in a two-agent batch equals its result alone) on spec/Simulate.tla.",
        note="Code-vs-code relation judged by TLC on recorded frames; batches of up to 8 (thorough 64) agents.",
        technique="TLC trace validation of relations between recorded simulation frames of transformed batches", ref="§6 C08"),
    "C17": dict(
        text="MC_StateSpace: for every filter mask over 8 (thorough 11) shapes TLC checks that the implementation-shaped tables "
             "(meshgrid[mask], any over choice axes, ranks with -1, repeat(arange)) satisfy the wording of the property; the same "
             "TLC-enumerated masks and seeded models with several/period-dependent filters are replayed into the real "
             "create_state_choice_space and judged by TLC (TraceUnits!JudgeScs).",
        note="Exhaustive over the enumerated masks in the thorough tier (<= 12 cells); quick replays all masks <= 6 cells + a sample.",
        technique="TLC exhaustive enumeration of masks + replay into the code + TLC trace validation", ref="§6 C17"),
    "C18": dict(
        text="MC_Argmax: every array over {0,1,2} x every mask x every ordered axes subset (shapes <= 4, thorough 6 cells): the "
             "implementation-shaped arg-max satisfies the declarative clause; the same cases run through lcm.argmax.argmax eagerly, "
             "jitted and fused into a larger jitted computation, plus segment_argmax and get_solve_discrete_problem cases; TLC judges "
             "every output position. Whole one-period models run with jax_enable_x64 whose objective values differ by less than "
             "float32 resolution exercise the arg-max primitives inside lcm's own fused computation (tolerance 0).",
        note="Fused inexact cases are judged on values with tolerance 2^-8, never on arg-max identity.",
        technique="TLC exhaustive small-scope enumeration + replay + TLC trace validation", ref="§6 C18"),
    "C19": dict(
        text="MC_Dispatch enumerates every signature (<= 3, thorough 4 parameters, every legal kind pattern) x every ordered subset of "
             "mapped names split into product/joint part and every call shape; each becomes real productmap/vmap_1d/spacemap/"
             "allow_only_kwargs/allow_args calls whose every output entry (f = sum 10^position x) or rejection is judged by TLC.",
        note="Exhaustive within the stated bounds; array lengths 2,3,4,... make the axis order visible.",
        technique="TLC exhaustive enumeration of signatures/calls + replay + TLC trace validation", ref="§6 C19"),
    "C14": dict(
        text="get_function_representation is evaluated on spaces covering every feasibility pattern of 1-3 restricted states that "
             "occurs among the TLC-enumerated masks, random unrestricted discrete axes and 0-3 continuous axes (linear and log), at "
             "points on nodes, inside cells and outside linear ranges; TLC compares every value with TraceUnits!FuncRep (indexer "
             "look-up + discrete look-up + Interp!MapCoordinates at Interp!Coord); every third case stores -inf / +inf / NaN in "
             "discrete cells that no evaluation point addresses; every fifth runs in mixed precision.",
        note="Exact equality for linear grids with dyadic points; 2^-9 relative with a log axis (TLA+ works from exact nodes).",
        technique="TLC-enumerated feasibility patterns + replay + TLC trace validation against the interpolation semantics", ref="§6 C14"),
    "C15": dict(
        text="map_coordinates on integer arrays of rank 1-4 at dyadic coordinates (nodes, cells, up to two cells outside; batched "
             "and unbatched) must equal Interp!MapCoordinates exactly; LinspaceGrid/LogspaceGrid.get_coordinate must satisfy the "
             "grid laws (node i -> i, strict monotonicity, = Interp!Coord, round trip) as judged by TLC, also on exact linear grids "
             "of 129-1025 nodes at values a thousandth of a step to either side of high-index nodes.",
        note="Seeded cases; log grids and non-power-of-two linear grids within a few-ulp tolerance; no statement about exp/log accuracy.",
        technique="TLC trace validation of recorded kernel/coordinate calls against Interp.tla", ref="§6 C15"),
    "C16": dict(
        text="MC_Grids enumerates all 5780 combinations of abstract input classes of the continuous grid constructors with the "
             "specification's decision (must reject / laws of the array form); each is replayed into LinspaceGrid/LogspaceGrid, plus "
             "seeded valid specifications (1-100 points, six orders of magnitude), 120 with bounds in a special relation (symmetric, "
             "zero, reciprocal) and 27 category classes for DiscreteGrid (anomalies at the ends and in the interior); TLC judges "
             "outcome class and the array laws on normalised observations.",
        note="Exhaustive over the class combinations; float32-unresolvable grids are a listed known finding, not generated.",
        technique="TLC enumeration of an input-class decision table + replay + TLC trace validation", ref="§6 C16"),
    "C20": dict(
        text="On the exact family v_i = s ln2 m_i (sum 2^(m_i-M) a power of two) TLC computes the closed form and compares it with "
             "the observed aggregation along axes and as segments; on arbitrary arrays (magnitude up to 1e6, scales 1e-3..1e3) TLC "
             "checks finiteness, 0 <= (emax-max)/s <= ln n, the shift law and axes = segments.",
        note="TLA+ has no exp/log: outside the exact family only the laws are decided; observations are normalised by the driver.",
        technique="TLC trace validation on an exactly solvable family + algebraic laws with rational bounds", ref="§6 C20"),
    "C12": dict(
        text="MC_Lifecycle: the life-cycle state machine (grids -> Model -> get_lcm_function -> first solve -> first simulate) "
             "rejects every one of the 2^8 sets of violated rules at an early stage and completes otherwise; the same rule sets "
             "are applied to 6 base templates (one with a single period; invalid grids drawn from 21 specifications) and replayed (stage reached and exception class recorded at every step, error path "
             "included); TLC (Lifecycle!LifecycleClause) accepts only early rejection with the three allowed error classes. "
             "Converse: a catalogue of accepted-but-unusual shapes, accepted instances of every template and random accepted models "
             "must solve, simulate and re-simulate. Liveness (weak fairness): every life cycle ends; an accepted one completes.",
        note="Six accepted shapes that crash later are listed in known_findings.json (D5, D6, D8, D12, D14, D15) and reported as "
             "KNOWN-FINDING; any other late failure is a violation.",
        technique="TLC enumeration of rule-violation sets + replay of the life cycle + TLC trace validation", ref="§6 C12"),
    "C09": dict(
        text="Call histories (depth 10; 2 models x 3 parameter sets x 2 batches x 2 seeds x jit on/off; function objects re-created) "
             "are behaviours of spec/Api.tla generated by tlc -simulate and replayed on live function objects; TraceApi (reusing "
             "Api's actions) requires equal denotation term => identical result digest, also for re-runs in fresh processes under "
             "other PYTHONHASHSEEDs, and unchanged fingerprints of the model, of the params passed (python/numpy/jax leaves; a fresh "
             "object or the returned template filled in place and held by the user: Api!held, FillTemplate) and of every params "
             "object the user still holds; the combined target with explicit value arrays (Api!CallCombinedWithArrays); every "
             "result is additionally validated against the reference semantics of its own arguments (TracePipeline). MC_Api checks "
             "the Api invariants exhaustively for small constants.",
        note="Digests are bitwise: histories use the exact dyadic model family, where jit/no-jit and batch width cannot change bits.",
        technique="TLC-generated API behaviours replayed into the code + TLC trace validation against Api.tla", ref="§6 C09"),
    "C10": dict(
        text="For seeded models and their rewritings (another declaration order, consistent renaming, an always-true constraint or "
             "filter, the discrete restriction as constraint instead of filter) both solutions are recorded; TLC maps each array "
             "through the layout of its own model and requires equal values for every state in the space of both "
             "(Relations!RelBad); for the same pairs TLC also checks that the law holds between the specification's own solutions.",
        note="Two-sided: spec-vs-spec (the law is a theorem of the reference semantics on these instances) and code-vs-code.",
        technique="TLC trace validation of relations between recorded solutions of rewritten models", ref="§6 C10"),
    "C11": dict(
        text="Pairs (model, transformed model) for the four laws (a u + b, beta = 0 vs truncated model, horizons T and T+k, one-hot "
             "stochastic vs deterministic): TLC checks V2[t2] = a V1[t1] + b sum beta^k on the recorded solutions - for small models "
             "through the layout and also on the specification's own solutions, for models with 65-513 x 2 states (one with more than "
             "2^16 nodes) entry by entry; affine pairs also on integer-typed utilities and dead-end states.",
        note="Large models: tolerance 2^-8 (1+|v|); they are far beyond what the reference semantics can enumerate, only the relation is checked.",
        technique="TLC trace validation of algebraic relations between recorded solutions (small: plus reference semantics)", ref="§6 C11"),
    "C04": dict(
        text="(1) MC_Keys: the split-tree discipline of spec/Keys.tla never reuses a key and gives pairwise distinct draw keys; the "
             "keys recorded by the guarded hooks (sim_keys in every run, per-agent draw keys in eager runs) are validated by "
             "TraceKeys, which reuses Keys' actions: seed-ignored, carry-chain-broken, key-reuse, key-shared, draw-key. (2) Panels of "
             "4000-8000 agents: TLC checks next-label counts per transition row, also conditional on the neighbouring agent's, the "
             "previous and another variable's draw, against the rows of the specification with an exact-integer 6-sigma region "
             "(zero-probability labels must not occur; two panels contain agents without an admissible choice, whose draws count like "
             "any other). (3) Same seed => identical frame, other seed => identical period 0 (seeds include the ends of the range: 0, "
             "1, 2^31-1). MC_Keys also checks liveness under weak fairness (every period simulated, every variable draws in every "
             "period); spec/apalache/KeysInd.tla discharges an inductive invariant of the key discipline for unbounded sizes. "
             "Thorough: MC_Panel checks the discipline inside the whole forward loop (keys split in every period, each agent draws "
             "once per period and variable, period 0 decided before any key is consumed) and refutes the variant that does not "
             "advance the carried key.",
        note="Trusted base: jax.random.split/choice. The statistical clause is an acceptance test (6 sigma, deterministic for a fixed VERIF_SEED).",
        technique="TLC model checking of the key discipline + trace validation of hooked key events + TLC-evaluated exact-integer frequency tests", ref="§6 C04"),
}
REASON_PENDING = "check under construction in this round (DESIGN.md §10); not yet claimed"


def main():
    hooks_commits = []
    p = ROOT / "hooks_commits.txt"
    if p.exists():
        hooks_commits = [l.split()[0] for l in p.read_text().splitlines() if l.strip()]
    claimed = [p for p in PROPS if p in CHECKS]
    man = {
        "version": 1,
        "setup_cmd": "./setup.sh",
        "hooks": {
            "guard": "LCM_VERIF",
            "enable": "environment variable LCM_VERIF=1 (set by ./check); lcm is an editable install of /repo/src, so every "
                      "check runs the current working tree, nothing is built",
            "baseline_off_cmd": "cd /repo && env -u LCM_VERIF /venv/bin/python -m pytest -ra -q -p no:cacheprovider "
                                "--timeout=900 --continue-on-collection-errors",
            "source_commits": hooks_commits,
            "add_only": True,
        },
        "engines": [
            {"name": "tlc-trace", "path": "spec/Trace*.tla", "serves_properties": claimed,
             "kind_free_text": "TLC validates recorded executions of the real code against the TLA+ specification (batched, total verdicts)"},
            {"name": "tlc-mc", "path": "spec/MC_*.tla", "serves_properties": claimed,
             "kind_free_text": "TLC model checking of the specification itself and generation of cases/behaviours replayed into the code"},
            {"name": "py-drivers", "path": "harness/", "serves_properties": claimed,
             "kind_free_text": "seeded generators of model descriptions and drivers that run lcm and record events; no Python-side oracle"},
        ],
        "checks": [],
        "not_applicable": [{"property_id": p, "reason": REASON_PENDING} for p in PROPS if p not in CHECKS],
        "notes": "See DESIGN.md. Exit codes: 0 held, 1 violation (VIOLATION line), 2 machinery failure.",
    }
    for pid in claimed:
        c = CHECKS[pid]
        man["checks"].append({
            "property_id": pid,
            "quick_cmd": f"./check {pid} --tier quick",
            "thorough_cmd": f"./check {pid} --tier thorough",
            "evidence_file": f"/verif/evidence/{pid}.json",
            "replay_cmd_template": f"./check {pid} --replay {{path}}",
            "engine": c.get("engine", TV),
            "level_claimed": {"category": c.get("level", "model_checking"), "text": c["text"], "design_ref": "DESIGN.md " + c["ref"]},
            "level_note": c["note"],
            "technique": c["technique"],
        })
    (ROOT / "MANIFEST.json").write_text(json.dumps(man, indent=1))
    subprocess.run(["python3-vt", "-c",
                    "import json,jsonschema;jsonschema.validate(json.load(open('/verif/MANIFEST.json')),"
                    "json.load(open('/root/.vp/MANIFEST.schema.json')));print('MANIFEST valid')"], check=True)


if __name__ == "__main__":
    main()
