#!/bin/bash
# Regression over all seeded changes: each against the quick check of its property (3 lanes). Output: one line per seed.
cd "$(dirname "$0")/.." || exit 2
mkdir -p out
lane() { for d in "$@"; do k=$(basename "$d"); p=${k%%-*}; python3 tools/seeded.py "$d" --checks "$p" > "out/reseed_$k.json" 2>&1; python3 - "$k" <<'PY'
import json,sys
k=sys.argv[1]
try:
    t=open(f'out/reseed_{k}.json').read(); t=t[t.index('{'):]; d=json.loads(t)
    c=list(d['checks'].values())[0]
    print(k, 'DETECTED' if c['exit']==1 else ('MISSED' if c['exit']==0 else 'ERROR'), c['violations'], c['clauses'], flush=True)
except Exception as e:
    print(k, 'ERROR', e, flush=True)
PY
done; }
all=(seeded/*/)
n=${#all[@]}
lane "${all[@]:0:$((n/3))}" & lane "${all[@]:$((n/3)):$((n/3))}" & lane "${all[@]:$((2*n/3))}" & wait
