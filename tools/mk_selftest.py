#!/usr/bin/env python3
"""Record the good traces used by tools/selftest.py (run once, by hand, under /venv/bin/python; results are committed)."""
import json
import random
import sys

sys.path.insert(0, "/verif")
from harness import drive, gen, history, keys, units  # noqa: E402
from harness.checks import c09  # noqa: E402
from harness.core import Ctx  # noqa: E402
from harness.pipeline import mk_spec, qinit  # noqa: E402


def main():
    rng = random.Random(5)
    m = gen.rand_model(rng, {"p_r": 1.0, "p_h": 1.0, "p_h_stoch": 1.0, "p_per_filter": 1.0, "T": [3], "p_z": 0.0, "max_cells": 400})
    init = qinit(gen.rand_initial_states(rng, m, 3, on_grid=True))
    spec = mk_spec(0, m, ["template", "solve", "c02", "c03", "c06", "c13"],
                   [{"op": "template"}, {"op": "solve", "jit": True},
                    {"op": "simulate", "target": "simulate", "init": init, "seed": 3, "vsrc": "given", "needV": True, "targets": ["utility"]}])
    case = drive.run_cases([spec], nproc=1)[0]
    json.dump(case, open("/verif/selftest/pipeline.json", "w"))
    kspec = {"cid": 0, "mdl": m, "init": init, "seed": 7, "eager": True}
    json.dump(keys.run_keys_case(kspec), open("/verif/selftest/keys.json", "w"))
    c = units.run_unit({"cid": 0, "fn": "scs", "sshape": [2, 2], "cshape": [2], "mask": [True, False, False, False, True, True, False, True],
                        "period": 0, "is_last": False, "jit_filter": False})
    json.dump(c, open("/verif/selftest/scs.json", "w"))
    ctx = Ctx("C09")
    hists, _, _ = c09.generate_histories(ctx, 3, 10)   # the first one passes a held params object (filled template)
    models, psets, inits = {}, {}, {}
    for mk in ("1", "2"):
        mm = gen.rand_model(rng, c09.PROF)
        models[mk] = mm
        psets[mk] = c09.param_variants(rng, mm)
        inits[mk] = {"1": qinit(gen.rand_initial_states(rng, mm, 2)), "2": qinit(gen.rand_initial_states(rng, mm, 3))}
    hs = {"cid": 0, "models": models, "paramsets": psets, "inits": inits, "seeds": {"1": 11, "2": 2024}, "hist": hists[0],
          "leafs": ["float"] * len(hists[0]), "extern_hashseeds": []}
    tr, _ = history.run_history(hs)
    json.dump(tr, open("/verif/selftest/api.json", "w"))
    print("recorded")


if __name__ == "__main__":
    main()
