#!/bin/bash
cd "$(dirname "$0")/.." || exit 2
export VERIF_SCRATCH=/tmp/verif-sweep2-$$
tools/thorough_all.sh C07 C08 C11
tools/seedsweep.sh 11 14
