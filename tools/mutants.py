#!/usr/bin/env python3
"""Calibration: apply a code mutation to a scratch copy of /repo/src and run checks against it.

usage: tools/mutants.py [-j N] [name ...]      (no name = all)
Nothing in /repo is touched; the copy lives under /tmp/verif-mut/<name> and is removed afterwards.
"""
import json
import os
import shutil
import subprocess
import sys
import time
from concurrent.futures import ThreadPoolExecutor
from pathlib import Path

ROOT = Path(__file__).resolve().parent.parent
# name: (file, old, new, checks expected to detect)
M = {
    "drop-beta": ("model_functions.py", 'big_u = u + kwargs["params"]["beta"] * ccv', "big_u = u + ccv", ["C01", "C07"]),
    "beta-twice": ("model_functions.py", 'big_u = u + kwargs["params"]["beta"] * ccv',
                   'big_u = u + kwargs["params"]["beta"] * kwargs["params"]["beta"] * ccv', ["C01", "C07"]),
    "undo-indexer-shift": ("entry_point.py", "    state_indexers = state_indexers[1:] + [{}]\n", "", ["C01", "C02", "C06"]),
    "clamp-no-extrapolation": ("ndimage.py", "    upper_weight = coordinate - lower_index",
                               "    upper_weight = jnp.clip(coordinate - lower_index, 0, 1)", ["C01", "C02"]),
    "ignore-feasibility-solve": ("entry_point.py", "        return u.max(where=f, initial=-jnp.inf)\n", "        return u.max()\n", ["C01"]),
    "repeat-tile-swap": ("simulate.py", "            _combination_grid[name] = jnp.tile(choice, reps=n_states)",
                         "            _combination_grid[name] = jnp.repeat(choice, repeats=n_states)", ["C02", "C08"]),
    "shock-index-reversed": ("input_processing/process_model.py", 'return params["shocks"][name][*indices]',
                             'return params["shocks"][name][*indices[::-1]]', ["C01", "C03", "C07"]),
    "period-off-by-one-sim": ("simulate.py", "            _period=jnp.repeat(period, n_initial_states),",
                              "            _period=jnp.repeat(period + 1, n_initial_states),", ["C03", "C13"]),
    "vf-shift-sim": ("simulate.py", "    vf_arr_list = vf_arr_list[1:] + [None]", "    vf_arr_list = vf_arr_list[:-1] + [None]", ["C02", "C06"]),
    "drop-dense-reindex": ("simulate.py", "                dense_argmax = dense_argmax[sparse_argmax]\n", "                pass\n", ["C02"]),
    "agent-major-frame": ("simulate.py", "    out = {key: jnp.concatenate(values) for key, values in dict_of_lists.items()}",
                          "    out = {key: jnp.stack(values, axis=1).reshape(-1) for key, values in dict_of_lists.items()}", ["C13", "C03"]),
    "template-unsorted-drop": ("input_processing/create_params_template.py", "        params = sorted(arguments.difference(variables))",
                               "        params = sorted(arguments.difference(variables))[:1]", ["C07"]),
    "shock-dims-sorted": ("input_processing/create_params_template.py", "            dimensions = (*dimensions_of_deps, len(grids[var]))",
                          "            dimensions = (*sorted(dimensions_of_deps), len(grids[var]))", ["C07"]),
    "dense-first": ("solve_brute.py", "        put_dense_first=False,", "        put_dense_first=True,", ["C01", "C05"]),
    "segment-argmax-first-row-value": ("simulate.py", "        \"value\": value,", "        \"value\": value * 1.0 + 0.25,", ["C02", "C06"]),
    "seed-ignored": ("simulate.py", "    key = jax.random.PRNGKey(seed=seed)", "    key = jax.random.PRNGKey(seed=0)", ["C04"]),
    "key-not-advanced": ("simulate.py", "    key = keys[0]\n", "    pass\n", ["C04"]),
    "argmax-last": ("argmax.py", "    argmax = jnp.argmax(max_value_mask, axis=-1)",
                    "    argmax = max_value_mask.shape[-1] - 1 - jnp.argmax(max_value_mask[..., ::-1], axis=-1)", ["C18"]),
    "indexer-fill-zero": ("state_space.py", "def create_indexers_and_segments(mask, n_sparse_states, fill_value=-1):",
                          "def create_indexers_and_segments(mask, n_sparse_states, fill_value=0):", ["C17"]),
    "logsumexp-no-shift": ("discrete_problem.py", "    exp = jnp.exp(a - segmax[segment_info[\"segment_ids\"]])",
                           "    exp = jnp.exp(a - 0 * segmax[segment_info[\"segment_ids\"]])", ["C20"]),
    "solve-memo": ("entry_point.py", "    solve_model = jax.jit(_solve_model) if jit else _solve_model\n",
                   "    _f = jax.jit(_solve_model) if jit else _solve_model\n    _memo = {}\n\n    def solve_model(params):\n        if 'v' not in _memo:\n            _memo['v'] = _f(params)\n        return _memo['v']\n", ["C09"]),
    "params-mutated": ("solve_brute.py", "    n_periods = len(state_choice_spaces)\n", "    n_periods = len(state_choice_spaces)\n    params['beta'] = params['beta'] * 1\n    params.setdefault('_seen', True)\n", ["C09"]),
    "grid-start-ge": ("grids.py", "        elif start >= stop:", "        elif start > stop:", ["C16"]),
    "lazy-stochastic-check": ("input_processing/create_params_template.py", "    if invalid_dependencies:\n        raise ValueError(", "    if False:\n        raise ValueError(", ["C12"]),
    "kwargs-by-position": ("functools.py", "    sorted_kwargs = dict(sorted(kwargs.items(), key=lambda kw: parameters.index(kw[0])))",
                           "    sorted_kwargs = dict(kwargs.items())", ["C19"]),
}


def run_one(name, checks=None):
    file, old, new, expected = M[name]
    base = Path("/tmp/verif-mut") / name
    shutil.rmtree(base, ignore_errors=True)
    base.mkdir(parents=True)
    try:
        shutil.copytree("/repo/src", base / "src", ignore=shutil.ignore_patterns("__pycache__"))
        p = base / "src" / "lcm" / file
        s = p.read_text()
        if old not in s:
            return name, {"error": "pattern not found"}
        p.write_text(s.replace(old, new, 1))
        out = {}
        have = {c["property_id"] for c in json.load(open(ROOT / "MANIFEST.json"))["checks"]}
        for c in (checks or expected):
            if c not in have and not checks:
                out[c] = "unclaimed"
                continue
            env = dict(os.environ, PYTHONPATH=str(base / "src"), VERIF_SCRATCH=str(base / "scratch"), VERIF_NPROC="8", VERIF_TLC_PROCS="6")
            t0 = time.time()
            r = subprocess.run([str(ROOT / "check"), c], env=env, capture_output=True, text=True, check=False)
            viol = [l for l in r.stdout.splitlines() if l.startswith("VIOLATION")]
            cl = sorted({l.split()[0] for l in r.stdout.splitlines() if l.strip().startswith("clause=")})
            out[c] = {"exit": r.returncode, "violations": len(viol), "clauses": cl[:6], "s": round(time.time() - t0)}
            if r.returncode == 2:
                out[c]["err"] = r.stderr[-300:]
        return name, out
    finally:
        shutil.rmtree(base, ignore_errors=True)


def main():
    args = sys.argv[1:]
    j = 2
    if args and args[0] == "-j":
        j = int(args[1])
        args = args[2:]
    checks = None
    if "--checks" in args:
        i = args.index("--checks")
        checks = args[i + 1].split(",")
        args = args[:i] + args[i + 2:]
    names = args or list(M)
    with ThreadPoolExecutor(j) as ex:
        for name, out in ex.map(lambda n: run_one(n, checks), names):
            print(name, json.dumps(out), flush=True)


if __name__ == "__main__":
    main()
