#!/usr/bin/env python3
"""tools/mk_table.py: the table of DESIGN.md section 11.2 from the committed evidence files."""
import json
from pathlib import Path

ROOT = Path(__file__).resolve().parent.parent
print("| id | evaluations | validated | out of scope | TLC states | wall (s) | non-trivial distinct |")
print("|---|---|---|---|---|---|---|")
for p in sorted((ROOT / "evidence").glob("C*.json")):
    d = json.loads(p.read_text())
    c = d["coverage"]
    print(f"| {d['property_id']} | {c.get('evaluations')} | {c.get('traces_validated_against_impl')} | {c.get('out_of_scope', 0)} | "
          f"{c.get('states')} | {round(d.get('wall_s', 0))} | {c.get('distinct_nontrivial')} |")
