#!/bin/bash
# run every thorough check once (scratch evidence), print one line per check
cd "$(dirname "$0")/.." || exit 2
export VERIF_SCRATCH=${VERIF_SCRATCH:-/tmp/verif-thorough-$$}
mkdir -p "$VERIF_SCRATCH"
for c in ${*:-C16 C19 C17 C14 C15 C20 C12 C18 C05 C03 C13 C07 C10 C11 C08 C06 C04 C02 C09 C01}; do
  s=$(date +%s)
  out=$(./check "$c" --tier thorough 2>&1); rc=$?
  echo "$c rc=$rc $(( $(date +%s) - s ))s $(echo "$out" | tail -1)"
  if [ $rc -ne 0 ]; then echo "$out" | grep -E "VIOLATION|clause=|MACHINERY" | head -6; fi
done
