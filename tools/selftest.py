#!/usr/bin/env python3
"""Demonstrates that the specification is bound to what is recorded: stored good traces are accepted, and each
corruption of ONE recorded field / removal of ONE event is rejected with the expected clause.  Also runs the
negative control of MC_Solve (state indexer of the current period = the repaired defect D2 must violate
ImplMatchesDecl).  Uses stored traces only: independent of the state of /repo."""
import copy
import json
import sys

sys.path.insert(0, "/verif")
from harness import tlc  # noqa: E402

ST = "/verif/selftest/"


def verdicts(module, cases):
    for i, c in enumerate(cases):
        c["cid"] = i
    v, _ = tlc.validate_traces(module, cases, nproc=4)
    return [v[i]["v"] for i in range(len(cases))]


def expect(name, got, status, clause=None):
    ok = got[0] == status and (clause is None or got[1] == clause)
    print(("ok   " if ok else "FAIL ") + f"{name}: {got[:2]}" + ("" if ok else f"   expected {status} {clause}"))
    return ok


def main():  # noqa: C901, PLR0915
    good = True
    # ---- pipeline
    base = json.load(open(ST + "pipeline.json"))
    cases, exp = [copy.deepcopy(base)], [("good pipeline trace", "ok", None)]
    c = copy.deepcopy(base)
    v = c["events"][1]["V"][0][0]
    c["events"][1]["V"][0][0] = [v[0] + v[1], v[1]]
    cases.append(c); exp.append(("one value-array entry + 1", "FAIL", "solve-value"))
    c = copy.deepcopy(base)
    c["events"][1]["V"].pop(); c["events"][1]["shapes"].pop(); c["events"][1]["n"] -= 1
    cases.append(c); exp.append(("one period's array removed", "FAIL", "n-arrays"))
    c = copy.deepcopy(base)
    c["events"][1]["shapes"][0] = list(reversed(c["events"][1]["shapes"][0])) if len(set(c["events"][1]["shapes"][0])) > 1 else c["events"][1]["shapes"][0] + [1]
    cases.append(c); exp.append(("shape of one array altered", "FAIL", "layout-shape"))
    c = copy.deepcopy(base)
    c["events"][2]["rows"].pop(); c["events"][2]["index"].pop()
    cases.append(c); exp.append(("one frame row removed", "FAIL", "row-count"))
    c = copy.deepcopy(base)
    c["events"][2]["index"][0], c["events"][2]["index"][1] = c["events"][2]["index"][1], c["events"][2]["index"][0]
    cases.append(c); exp.append(("two index entries swapped", "FAIL", "frame-index"))
    c = copy.deepcopy(base)
    r = c["events"][2]["rows"][0]
    r["period"] = [5, 1]
    cases.append(c); exp.append(("_period of one row altered", "FAIL", "period-column"))
    c = copy.deepcopy(base)
    r = c["events"][2]["rows"][0]
    r["value"] = [r["value"][0] + 3 * r["value"][1], r["value"][1]]
    cases.append(c); exp.append(("value of one row + 3", "FAIL", None))
    c = copy.deepcopy(base)
    r = c["events"][2]["rows"][c["events"][2]["N"]]     # a period-1 row
    k = next(n for n in r["state"] if n != "h")
    r["state"][k] = [r["state"][k][0] + 7 * r["state"][k][1], r["state"][k][1]]
    cases.append(c); exp.append(("one period-1 state altered", "FAIL", None))
    c = copy.deepcopy(base)
    c["events"][0]["keys"].append("gamma")
    cases.append(c); exp.append(("extra template key", "FAIL", "template-keys"))
    for (name, st, cl), got in zip(exp, verdicts("TracePipeline", cases)):
        good &= expect(name, got, st, cl)
    # ---- keys
    base = json.load(open(ST + "keys.json"))
    cases, exp = [copy.deepcopy(base)], [("good key trace", "ok", None)]
    c = copy.deepcopy(base)
    i = [k for k, e in enumerate(c["events"]) if e["e"] == "sim_keys"][1]
    j = next(k for k in range(i, len(c["events"])) if c["events"][k]["e"] == "end_period")
    del c["events"][i:j + 1]
    cases.append(c); exp.append(("one period's key events removed", "FAIL", "carry-chain-broken"))
    c = copy.deepcopy(base)
    ks = [e for e in c["events"] if e["e"] == "sim_keys"]
    ks[1]["var_keys"][0] = ks[0]["var_keys"][0]
    cases.append(c); exp.append(("a variable key of period 0 re-used in period 1", "FAIL", None))
    c = copy.deepcopy(base)
    c["root"] = "0:12345"
    cases.append(c); exp.append(("root key is not PRNGKey(seed)", "FAIL", "seed-ignored"))
    c = copy.deepcopy(base)
    d = next(e for e in c["events"] if e["e"] == "draw" and len(e["agent_keys"]) > 1)
    d["agent_keys"][1] = d["agent_keys"][0]
    cases.append(c); exp.append(("two agents share a draw key", "FAIL", "key-shared"))
    for (name, st, cl), got in zip(exp, verdicts("TraceKeys", cases)):
        good &= expect(name, got, st, cl)
    # ---- state-choice space
    base = json.load(open(ST + "scs.json"))
    cases, exp = [copy.deepcopy(base)], [("good state-choice space", "ok", None)]
    c = copy.deepcopy(base)
    c["obs"]["indexer"] = [0 if x == -1 else x for x in c["obs"]["indexer"]]
    cases.append(c); exp.append(("indexer fill value 0", "FAIL", "indexer"))
    c = copy.deepcopy(base)
    c["obs"]["combos"] = c["obs"]["combos"][1:] + c["obs"]["combos"][:1]
    cases.append(c); exp.append(("combination grid rotated", "FAIL", "order"))
    c = copy.deepcopy(base)
    c["obs"]["combos"] = c["obs"]["combos"][:-1]
    cases.append(c); exp.append(("one combination missing", "FAIL", "combos"))
    for (name, st, cl), got in zip(exp, verdicts("TraceUnits", cases)):
        good &= expect(name, got, st, cl)
    # ---- API histories
    base = json.load(open(ST + "api.json"))
    cases, exp = [copy.deepcopy(base)], [("good API history", "ok", None)]
    c = copy.deepcopy(base)
    calls = [e for e in c["events"] if e["op"] != "create"]
    seen = {}
    target = None
    for e in calls:
        key = (e["op"], e["model"], e["p"], e["init"], e["seed"], e["vfrom"])
        if key in seen:
            target = e
            break
        seen[key] = e
    if target is None:
        extra = copy.deepcopy(calls[-1])
        extra["digest"] = "corrupted"
        c["events"].append(extra)
    else:
        target["digest"] = "corrupted"
    cases.append(c); exp.append(("digest of a repeated call altered", "FAIL", "same-term-different-result"))
    c = copy.deepcopy(base)
    calls = [e for e in c["events"] if e["op"] not in ("create", "fill", "rejected")]
    calls[0]["params_fp_after"] = "x"
    cases.append(c); exp.append(("params fingerprint changed by a call", "FAIL", "params-mutated"))
    c = copy.deepcopy(base)
    calls = [e for e in c["events"] if e["op"] not in ("create", "fill", "rejected")]
    calls[-1]["held_fp_after"] = "x"
    cases.append(c); exp.append(("a params object the user still holds changed by a later call", "FAIL", "held-params-mutated"))
    c = copy.deepcopy(base)
    held = [e for e in c["events"] if e.get("via") == "held"]
    if held:
        c["events"] = [e for e in c["events"] if e["op"] != "fill"]
        cases.append(c); exp.append(("held params object passed without the user having filled it", "FAIL", "not-an-api-behaviour"))
    for (name, st, cl), got in zip(exp, verdicts("TraceApi", cases)):
        good &= expect(name, got, st, cl)
    # ---- negative control of the model checker: the repaired defect D2 in the specification
    mc = tlc.model_check("MC_Solve", cfg="MC_Solve_d2.cfg", workers=8)
    ok = (not mc["ok"]) and "ImplMatchesDecl is violated" in mc["out"]
    print(("ok   " if ok else "FAIL ") + "MC_Solve with the state indexer of the current period violates ImplMatchesDecl")
    good &= ok
    # ---- the same two repaired defects put back into the whole-forward-loop machine (spec/MC_Panel.tla)
    for cfg, inv, what in (("MC_Panel_neg_d3.cfg", "DecisionsAdmissible", "the dense arg-max indexed by the agent number (D3)"),
                           ("MC_Panel_neg_d2.cfg", "SolutionIsBellman", "the state indexer of the current period (D2)")):
        mc = tlc.model_check("MC_Panel", cfg=cfg, workers=4)
        ok = (not mc["ok"]) and f"Invariant {inv} is violated" in mc["out"]
        print(("ok   " if ok else "FAIL ") + f"MC_Panel with {what} violates {inv}")
        good &= ok
    print("selftest", "passed" if good else "FAILED")
    return 0 if good else 1


if __name__ == "__main__":
    sys.exit(main())
