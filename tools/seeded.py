#!/usr/bin/env python3
"""Evaluate a seeded breaking change: tools/seeded.py <dir with patch.diff, demo.py> [--checks C01,C02] [--tests]

 1. a scratch worktree of /repo HEAD is created under /tmp/verif-seeded/, the patch applied there;
 2. demo.py is run against the unpatched and the patched source (expected: exit 0 / exit != 0);
 3. (--tests) the repository's test-suite is run against the patched source;
 4. the listed checks (default: the one named in meta.json or the directory name) run against the patched source.
Nothing in /repo is modified; the scratch worktree is removed afterwards."""
import json
import os
import shutil
import subprocess
import sys
import time
from pathlib import Path

ROOT = Path(__file__).resolve().parent.parent


def sh(cmd, **kw):
    return subprocess.run(cmd, shell=isinstance(cmd, str), capture_output=True, text=True, check=False, **kw)


def main():
    args = sys.argv[1:]
    d = Path(args[0]).resolve()
    checks = None
    if "--checks" in args:
        checks = args[args.index("--checks") + 1].split(",")
    run_tests = "--tests" in args
    name = d.name
    meta = json.loads((d / "meta.json").read_text()) if (d / "meta.json").exists() else {}
    checks = checks or meta.get("detect_with") or [meta.get("property", name[:3])]
    wt = Path("/tmp/verif-seeded") / name
    sh(f"git -C /repo worktree remove --force {wt}")
    shutil.rmtree(wt, ignore_errors=True)
    wt.parent.mkdir(exist_ok=True)
    r = sh(f"git -C /repo worktree add -f {wt} HEAD")
    if r.returncode:
        print(r.stderr)
        return 2
    out = {"seed": name}
    try:
        env0 = dict(os.environ, PYTHONPATH=f"{wt / 'src'}:{wt}", JAX_PLATFORMS="cpu")
        env0.pop("LCM_VERIF", None)
        r0 = sh(["/venv/bin/python", str(d / "demo.py")], env=env0, cwd=wt, timeout=1200)
        out["demo_unpatched_exit"] = r0.returncode
        r = sh(f"git -C {wt} apply {d / 'patch.diff'}")
        if r.returncode:
            print("patch does not apply:", r.stderr)
            return 2
        r1 = sh(["/venv/bin/python", str(d / "demo.py")], env=env0, cwd=wt, timeout=1200)
        out["demo_patched_exit"] = r1.returncode
        out["demo_patched_tail"] = (r1.stdout + r1.stderr)[-300:]
        if run_tests:
            rt = sh(["/venv/bin/python", "-m", "pytest", "-q", "-p", "no:cacheprovider", "--timeout=900", "tests"], env=env0, cwd=wt, timeout=3600)
            out["tests_tail"] = rt.stdout.strip().splitlines()[-1] if rt.stdout.strip() else rt.stderr[-200:]
        res = {}
        for c in checks:
            env = dict(os.environ, PYTHONPATH=str(wt / "src"), VERIF_SCRATCH=str(wt / "_scratch"))
            t0 = time.time()
            rc = sh([str(ROOT / "check"), c], env=env, timeout=7200)
            cl = sorted({l.strip().split()[0] for l in rc.stdout.splitlines() if l.strip().startswith("clause=")})
            res[c] = {"exit": rc.returncode, "violations": sum(1 for l in rc.stdout.splitlines() if l.startswith("VIOLATION")),
                      "clauses": cl[:8], "s": round(time.time() - t0)}
            if rc.returncode == 2:
                res[c]["err"] = rc.stderr[-300:]
        out["checks"] = res
    finally:
        sh(f"git -C /repo worktree remove --force {wt}")
        shutil.rmtree(wt, ignore_errors=True)
    print(json.dumps(out, indent=1))
    return 0


if __name__ == "__main__":
    sys.exit(main())
