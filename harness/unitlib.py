"""Shared bookkeeping of the unit-level checks (cases -> drivers -> TraceUnits -> verdicts)."""
from __future__ import annotations

from . import tlc, units
from .core import add_violation, digest


def run_unit_cases(ctx, res, cases, *, nontrivial, sample_keys, chunk=200, module="TraceUnits"):
    done = units.run_units(cases, chunk=chunk)
    verdicts, st = tlc.validate_traces(module, done)
    n_ok = 0
    seen, nontriv = set(), set()
    kinds = {}
    clauses = {}
    for c in done:
        v = verdicts[c["cid"]]
        h = digest({k: c.get(k) for k in sample_keys})
        seen.add(h)
        kinds[c.get("kind", c["fn"])] = kinds.get(c.get("kind", c["fn"]), 0) + 1
        if c["fn"] != "error" and nontrivial(c):
            nontriv.add(h)
        if v["v"][0] == "ok":
            n_ok += 1
        elif v["v"][0] == "FAIL":
            key = f"{c.get('kind', c['fn'])}: {v['v'][1]}"
            clauses[key] = clauses.get(key, 0) + 1
            add_violation(ctx, res, v["v"][1], {"kind": "unit", "property": ctx.prop, "case": c, "verdict": v},
                          f"case {c['cid']} ({c.get('kind', c['fn'])}): {v['v'][2][:300]}")
    res.merge_cov(evaluations=len(cases), traces_validated_against_impl=n_ok, states=st["distinct"],
                  transitions=st["generated"], tlc_runs=st["tlc_runs"], case_kinds=kinds, clauses=clauses)
    res.coverage.setdefault("_seen", set()).update(seen)
    res.coverage.setdefault("_nontriv", set()).update(nontriv)
    return done, verdicts


def finalize_units(res, rule):
    seen = res.coverage.pop("_seen", set())
    nt = res.coverage.pop("_nontriv", set())
    res.coverage["distinct_cases"] = len(seen)
    res.coverage["distinct_nontrivial"] = len(nt)
    res.coverage["rule"] = rule


def tlc_cases(module, cfg, tag="CASE"):
    """Cases printed by a generator configuration of an MC_* module."""
    out, _, _, rc = tlc.run_tlc(module, cfg=cfg)
    cases = tlc.parse_prints(out, tag)
    if rc != 0 or not cases:
        raise tlc.MachineryError(f"{module} ({cfg}) produced no cases: {tlc.tlc_errors(out)[:3]}")
    return cases


def seqify(x):
    """TLC's ToJson renders functions on 1..n as objects {"1":..}: back to lists."""
    if isinstance(x, dict) and x and all(k.isdigit() for k in x):
        return [seqify(x[str(i)]) for i in range(1, len(x) + 1)]
    if isinstance(x, dict):
        return {k: seqify(v) for k, v in x.items()}
    if isinstance(x, list):
        return [seqify(v) for v in x]
    return x


def mc_or_die(module, cfg, workers=8):
    mc = tlc.model_check(module, cfg=cfg, workers=workers)
    if not mc["ok"]:
        raise tlc.MachineryError(f"{module} ({cfg}) failed: the layers of the specification disagree\n" + mc["out"][-2500:])
    return mc


def mc_must_fail(module, cfg, invariant, workers=8):
    """Negative control of the model checker: a configuration that re-introduces a repaired defect / a wrong design into the
    specification must be refuted by TLC with the named invariant (otherwise the invariant is vacuous)."""
    mc = tlc.model_check(module, cfg=cfg, workers=workers)
    if mc["ok"] or f"Invariant {invariant} is violated" not in mc["out"]:
        raise tlc.MachineryError(f"{module} ({cfg}): expected TLC to refute {invariant}; it did not\n" + mc["out"][-1500:])
    return mc
