"""Drivers: run the real lcm code on a case and record one event per specification action.

A *spec* (input) is {"cid", "mdl", "groups", "tol", "reltol", "plan": [step...]}; the
result (output) is the trace case {"cid", "mdl", "groups", "tol", "reltol", "events"}
that module TracePipeline validates.  The driver never computes an expected value.
"""
from __future__ import annotations

import os
import traceback
from concurrent.futures import ProcessPoolExecutor
from fractions import Fraction as F
from multiprocessing import get_context

from . import mdl as MDL

NPROC = int(os.environ.get("VERIF_NPROC", "16"))


def _worker_init():
    os.environ.setdefault("LCM_VERIF", "1")
    os.environ.setdefault("XLA_FLAGS", "--xla_cpu_multi_thread_eigen=false intra_op_parallelism_threads=1")
    os.environ.setdefault("JAX_PLATFORMS", "cpu")
    import logging

    logging.disable(logging.CRITICAL)
    _start_coverage()


_COV = None


def _start_coverage():
    """tools/lcm_coverage.sh: line coverage of src/lcm under the checks (a measurement of what the drivers reach, not a check)."""
    global _COV
    d = os.environ.get("VERIF_COVERAGE")
    if not d or _COV is not None:
        return
    import atexit

    import coverage

    _COV = coverage.Coverage(data_file=os.path.join(d, "cov"), data_suffix=True, source_pkgs=["lcm"], branch=True)
    _COV.start()
    atexit.register(save_coverage)
    try:
        from multiprocessing import util

        util.Finalize(None, save_coverage, exitpriority=10)
    except Exception:  # noqa: BLE001, S110
        pass


def save_coverage():
    if _COV is not None:
        _COV.save()
        _COV.start()


def _shape_list(a):
    return [int(x) for x in a.shape]


def _flat(a):
    import numpy as np

    return [MDL.enc(x) for x in np.asarray(a, dtype=np.float64).ravel()]


def _err(op, e):
    return {"e": "error", "op": op, "cls": type(e).__name__, "msg": str(e)[:300]}


class Session:
    """Function objects of one model, created lazily per (target, jit).  Cases with the same `session_key` that run
    in one driver process share the session: the same function objects and, for steps with `inplace`, the same
    params object whose numpy leaves are overwritten in place (what a user does who updates parameters between calls)."""

    def __init__(self, m):
        self.m = m
        self.model = MDL.build(m)
        self.funcs = {}
        self.template = None
        self.params_obj = None

    def params_for(self, m, step):
        if step.get("inplace"):
            if self.params_obj is None:
                self.params_obj = MDL.params(m, leaf="inplace")
            else:
                MDL.update_params_inplace(self.params_obj, m)
            return self.params_obj
        return MDL.params(step.get("mdl_params", m), leaf=step.get("leaf", "float"))

    def get(self, target, jit):
        from lcm.entry_point import get_lcm_function

        key = (target, bool(jit))
        if key not in self.funcs:
            f, tmpl = get_lcm_function(self.model, targets=target, debug_mode=False, jit=bool(jit))
            self.funcs[key] = f
            self.template = tmpl
        return self.funcs[key]


def template_event(sess):
    import numpy as np

    sess.get("solve", True)
    t = sess.template
    keys = list(t.keys())
    funcs = {k: list(v.keys()) for k, v in t.items() if k not in ("beta", "shocks") and isinstance(v, dict)}
    shocks = {k: _shape_list(v) for k, v in t.get("shocks", {}).items()}
    allnan = True
    for k, v in t.items():
        if k == "shocks":
            allnan = allnan and all(bool(np.isnan(np.asarray(a)).all()) for a in v.values())
        elif isinstance(v, dict):
            allnan = allnan and all(bool(np.isnan(x)) for x in v.values())
        else:
            allnan = allnan and bool(np.isnan(v))
    from lcm.input_processing import process_model

    pm = process_model(sess.model)
    vi, fi = pm.variable_info, pm.function_info

    def kind(n):
        r = fi.loc[n]
        return "filter" if r["is_filter"] else "constraint" if r["is_constraint"] else "next" if r["is_next"] else "other"

    return {"e": "template", "keys": keys, "funcs": funcs, "shocks": shocks, "allnan": allnan,
            "canon": [str(x) for x in vi.index], "sparse": [str(x) for x in vi.query("is_sparse").index],
            "aux": [str(x) for x in vi.query("is_auxiliary").index], "stochastic": [str(x) for x in vi.query("is_stochastic").index],
            "fkinds": {str(n): kind(n) for n in fi.index}}


def solve_event(sess, step, store):
    f = sess.get("solve", step.get("jit", True))
    p = sess.params_for(step.get("mdl_now", sess.m), step)
    ccv = []
    try:
        import lcm._verif as hooks

        hooks.drain()
    except Exception:  # noqa: BLE001
        hooks = None
    V = f(p)
    if hooks is not None and step.get("record_ccv"):
        evs = [e for e in hooks.drain() if e["e"] == "solve_period"]
        by = {int(e["period"]): e for e in evs}
        if sorted(by) == list(range(len(V))):
            ccv = [_flat(by[t]["ccv"]) for t in range(len(V))]
    store["V"] = V
    return {"e": "solve", "jit": bool(step.get("jit", True)), "n": len(V),
            "shapes": [_shape_list(v) for v in V], "V": [_flat(v) for v in V], "ccv": ccv}


def _init_arrays(m, init, int_init=False, np_init=False):
    """int_init: continuous states whose initial values are all integers are passed as an integer array
    (a user who types wealth = [10, 35] gets one).  np_init: numpy arrays instead of jax arrays."""
    import jax.numpy as jnp
    import numpy as np

    if np_init:
        jnp = np  # noqa: F811

    out = {}
    for name, vals in init.items():
        v = MDL.var_by_name(m, name)
        if v["kind"] == "disc" or (int_init and all(F(x).denominator == 1 for x in vals)):
            out[name] = jnp.array([int(F(x)) for x in vals])
        else:
            out[name] = jnp.array([float(F(x)) for x in vals])
    return out


def simulate_event(sess, step, store):  # noqa: C901
    import jax.numpy as jnp
    import numpy as np

    m = sess.m
    target = step.get("target", "simulate")
    jit = step.get("jit", True)
    m = step.get("mdl_now", sess.m)
    p = sess.params_for(m, step)
    init = {k: [F(x) if not isinstance(x, (list, tuple)) else F(*x) for x in v] for k, v in step["init"].items()}
    order = step.get("init_order") or list(init)
    init_arr = _init_arrays(m, {k: init[k] for k in order}, int_init=bool(step.get("int_init")), np_init=bool(step.get("np_init")))
    n_agents = len(next(iter(init.values())))
    targets = step.get("targets") or []
    embed = step.get("embed")
    if embed:
        # the k agents of this step are simulated inside a large batch: agent i of the large batch has the initial state of agent
        # i mod k, and the agents at embed["positions"] (position j is congruent to j mod k, ascending) are kept.  The frame of
        # the kept agents, renumbered 0..k-1, must be a frame of these k agents simulated on their own (C08), so everything
        # below treats it as one.  Only selection and renumbering happen here.
        n_full = int(embed["n_full"])
        reps = -(-n_full // n_agents)
        init_arr = {k: (np.tile(np.asarray(v), reps)[:n_full] if step.get("np_init") else jnp.tile(jnp.asarray(v), reps)[:n_full])
                    for k, v in init_arr.items()}
    kwargs = {"initial_states": init_arr, "seed": step.get("seed", 0)}
    if step.get("seed", 0) is None:      # the caller does not pass a seed: the documented default applies
        del kwargs["seed"]
    if targets:
        kwargs["additional_targets"] = list(targets)
    vsrc = step.get("vsrc", "own")
    Vused = None
    need_v = step.get("needV", False) or vsrc != "own"
    if target == "simulate":
        if step.get("arbitrary"):
            shapes = [np.asarray(v).shape for v in sess.get("solve", jit)(p)]
            Vused = [jnp.asarray(np.array(a[:int(np.prod(s))], dtype=np.float32).reshape(s))
                     for a, s in zip(step["arbitrary"], shapes, strict=True)]
        else:
            Vused = sess.get("solve", step.get("solve_jit", jit))(p)
        kwargs["vf_arr_list"] = Vused
    elif step.get("arbitrary") or step.get("pass_v"):
        # the combined target also accepts value arrays: the arrays the caller passes are the arrays in use
        src = sess.get("solve", jit)(p)
        if step.get("arbitrary"):
            shapes = [np.asarray(v).shape for v in src]
            Vused = [jnp.asarray(np.array(a[:int(np.prod(s))], dtype=np.float32).reshape(s))
                     for a, s in zip(step["arbitrary"], shapes, strict=True)]
        else:
            Vused = src
        kwargs["vf_arr_list"] = Vused
    elif need_v:
        Vused = sess.get("solve", jit)(p)
    f = sess.get(target, jit)
    steps = []
    try:
        import lcm._verif as hooks

        hooks.drain()
    except Exception:  # noqa: BLE001
        hooks = None
    df = f(p, **kwargs)
    if hooks is not None and step.get("record_steps"):
        steps = _sim_steps(m, hooks.drain())
    full_rows = int(len(df))
    if embed:
        pos = [int(x) for x in embed["positions"]]
        ren = {a: j for j, a in enumerate(pos)}
        ids = df.index.get_level_values(-1)
        df = df[ids.isin(pos)]
        if df.index.nlevels == 2:
            df.index = df.index.set_levels([df.index.levels[0], df.index.levels[1]], verify_integrity=False)
            df = df.set_axis(df.index.map(lambda ti: (ti[0], ren[ti[1]])).set_names(list(df.index.names)), axis=0)
    store["df"] = df
    sn = MDL.state_names(m)
    cn = MDL.choice_names(m)
    need = ["value", "_period", *sn, *cn, *targets]
    missing = [c for c in need if c not in df.columns]
    if missing:
        return {"e": "error", "op": "simulate", "cls": "MissingColumns", "msg": str(missing)}
    cols = {c: np.asarray(df[c].to_numpy(), dtype=np.float64) for c in need}
    rows = []
    for k in range(len(df)):
        rows.append({
            "state": {n: MDL.enc(cols[n][k]) for n in sn},
            "choice": {n: MDL.enc(cols[n][k]) for n in cn},
            "value": MDL.enc(cols["value"][k]),
            "period": MDL.enc(cols["_period"][k]),
            "targets": {n: MDL.enc(cols[n][k]) for n in targets},
        })
    index = [[int(a), int(b)] for a, b in df.index.tolist()] if df.index.nlevels == 2 else [[-1, int(a)] for a in df.index.tolist()]
    return {"e": "simulate", "target": target, "jit": bool(jit), "seed": int(step.get("seed", 0) if step.get("seed", 0) is not None else -1), "vsrc": vsrc,
            "V": [_flat(v) for v in Vused] if (Vused is not None and need_v) else [],
            "N": n_agents, "init": {k: [MDL.q(x) for x in v] for k, v in init.items()},
            "targets": list(targets), "cols": [str(c) for c in df.columns], "index": index, "rows": rows,
            "index_names": [str(x) for x in df.index.names], "steps": steps,
            "full_N": int(embed["n_full"]) if embed else n_agents, "full_rows": full_rows}


def _sim_steps(m, evs):
    """Intermediate state of every simulated period as recorded by the hooks sim_space / sim_policy."""
    import numpy as np

    sp = {int(e["period"]): e for e in evs if e["e"] == "sim_space"}
    po = {int(e["period"]): e for e in evs if e["e"] == "sim_policy"}
    if sorted(sp) != list(range(m["T"])) or sorted(po) != list(range(m["T"])):
        return []
    cn = set(MDL.choice_names(m))
    out = []
    for t in range(m["T"]):
        s, q_ = sp[t], po[t]
        anyv = next(iter(s["sparse_vars"].values()))
        seg = s["segments"]
        out.append({
            "nrows": int(np.asarray(anyv).shape[0]),
            "sparse": {k: [MDL.enc(x) for x in np.asarray(v, dtype=np.float64).ravel()] for k, v in s["sparse_vars"].items() if k in cn},
            "segments": [int(x) for x in np.asarray(seg["segment_ids"]).ravel()] if seg is not None else [],
            "ccv": [MDL.enc(x) for x in np.asarray(q_["ccv"], dtype=np.float64).ravel()],
            "value": [MDL.enc(x) for x in np.asarray(q_["value"], dtype=np.float64).ravel()],
        })
    return out


def run_case(spec, sessions=None):
    """Drive lcm through the plan of one case; exceptions become `error' events."""
    events = []
    store = {}
    key = spec.get("session_key")
    try:
        if sessions is not None and key is not None and key in sessions:
            sess = sessions[key]
        else:
            sess = Session(spec["mdl"])
            if sessions is not None and key is not None:
                sessions[key] = sess
    except Exception as e:  # noqa: BLE001
        events.append(_err("build", e))
        sess = None
    for step in spec["plan"]:
        if sess is not None and key is not None:
            step = dict(step, mdl_now=spec["mdl"])
        op = step["op"]
        if op.startswith("rel-"):
            events.append({"e": op, **{k: v for k, v in step.items() if k not in ("op", "mdl_now")}})
            continue
        if sess is None:
            continue
        try:
            if op == "template":
                events.append(template_event(sess))
            elif op == "solve":
                events.append(solve_event(sess, step, store))
            elif op == "simulate":
                events.append(simulate_event(sess, step, store))
            else:
                raise ValueError(op)
        except Exception as e:  # noqa: BLE001
            ev = _err(op, e)
            ev["tb"] = traceback.format_exc()[-1500:]
            events.append(ev)
    out = {k: v for k, v in spec.items() if k != "plan"}
    out["mdl"] = MDL_strip(spec["mdl"])
    out["events"] = events
    return out


def MDL_strip(m):
    return {k: v for k, v in m.items() if k != "meta"}


def _run_chunk(specs):
    _worker_init()
    import jax

    # a chunk is homogeneous in its floating-point mode (run_cases groups them)
    jax.config.update("jax_enable_x64", bool(specs and specs[0].get("x64")))
    sessions = {}
    return [run_case(s, sessions) for s in specs]


def run_cases(specs, nproc=None, chunk=4):
    """Run many cases in a pool of worker processes (spawned: JAX does not survive fork)."""
    nproc = nproc or NPROC
    if not specs:
        return []
    from .pool import robust_map

    # chunks are homogeneous in the floating-point mode; results are put back into the order of `specs`
    order = sorted(range(len(specs)), key=lambda i: bool(specs[i].get("x64")))
    groups = [[i for i in order if bool(specs[i].get("x64")) == flag] for flag in (False, True)]
    idx_chunks = [g[i:i + chunk] for g in groups for i in range(0, len(g), chunk)]
    if nproc == 1 or len(specs) == 1:
        out = [None] * len(specs)
        for ic in idx_chunks:
            for i, r in zip(ic, _run_chunk([specs[i] for i in ic]), strict=True):
                out[i] = r
        return out
    chunks = [[specs[i] for i in ic] for ic in idx_chunks]

    def failed(ch, why):     # the driver process died or hung on this chunk: every case of it is a crash
        return [{**{k: v for k, v in s.items() if k != "plan"}, "mdl": MDL_strip(s["mdl"]),
                 "events": [{"e": "error", "op": "driver", "cls": "DriverProcessFailure", "msg": why}]} for s in ch]

    out = [None] * len(specs)
    for ic, res in zip(idx_chunks, robust_map(_run_chunk, chunks, nproc, failed, initializer=_worker_init), strict=True):
        for i, r in zip(ic, res, strict=True):
            out[i] = r
    return out
