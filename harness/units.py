"""Drivers for the lower-level public entry points (C14-C20): one recorded call per case."""
from __future__ import annotations

import os
import traceback
from concurrent.futures import ProcessPoolExecutor
from multiprocessing import get_context

from . import mdl as MDL
from .drive import _worker_init

NPROC = int(os.environ.get("VERIF_NPROC", "16"))
TOL = [1, 4096]


def _err(c, op, e):
    return {"cid": c["cid"], "fn": "error", "op": op, "cls": type(e).__name__, "msg": str(e)[:300],
            "tb": traceback.format_exc()[-1200:], "input": {k: v for k, v in c.items() if k != "mdl"}}


# ----------------------------------------------------------------------------- C17
_SCS_MODELS = {}
_MASK = {"m": None}


def _scs_model(ss, cs):
    """A real Model with restricted states s0.. / choices a0.. (sizes ss / cs) whose single filter
    looks the current mask up, plus an unrestricted discrete state d, an unrestricted discrete
    choice e, a continuous state x and a continuous choice y."""
    import jax.numpy as jnp

    from lcm import DiscreteGrid, LinspaceGrid, Model
    from lcm.input_processing import process_model

    key = (tuple(ss), tuple(cs))
    if key in _SCS_MODELS:
        return _SCS_MODELS[key]
    sn = [f"s{i}" for i in range(len(ss))]
    an = [f"a{i}" for i in range(len(cs))]
    allv = sn + an
    ns = {"jnp": jnp, "MASK": _MASK}
    src = f"def t_filter({', '.join(allv)}):\n    return jnp.asarray(MASK['m'])[{', '.join(allv)}]\n"
    exec(src, ns)  # noqa: S102
    ua = [*allv, "d", "e", "x", "y"]
    exec(f"def utility({', '.join(ua)}):\n    return 0.0 + {' + '.join(ua)}\n", ns)  # noqa: S102
    funcs = {"utility": ns["utility"], "t_filter": ns["t_filter"]}
    for s in [*sn, "d", "x"]:
        exec(f"def next_{s}({s}):\n    return {s}\n", ns)  # noqa: S102
        funcs[f"next_{s}"] = ns[f"next_{s}"]
    D = lambda n: DiscreteGrid(MDL.category_class(n))  # noqa: E731
    # declaration order deliberately not canonical
    states = {"x": LinspaceGrid(start=0, stop=1, n_points=3), "d": D(2)}
    states.update({n: D(k) for n, k in zip(sn, ss, strict=True)})
    choices = {"y": LinspaceGrid(start=0, stop=1, n_points=2), "e": D(3)}
    choices.update({n: D(k) for n, k in zip(an, cs, strict=True)})
    pm = process_model(Model(n_periods=2, functions=funcs, states=states, choices=choices))
    _SCS_MODELS[key] = (pm, sn, an)
    return _SCS_MODELS[key]


def _obs_scs(res):
    import numpy as np

    sp, info, idx, seg = res
    names = list(sp.sparse_vars)
    n = len(next(iter(sp.sparse_vars.values()))) if names else 0
    combos = [[int(np.asarray(sp.sparse_vars[k])[r]) for k in names] for r in range(n)]
    has_idx = "state_indexer" in idx and idx["state_indexer"] is not None
    return {
        "sparse_names": names,
        "combos": combos,
        "has_indexer": bool(has_idx),
        "indexer": [int(x) for x in np.asarray(idx["state_indexer"]).ravel()] if has_idx else [],
        "indexer_shape": [int(x) for x in np.asarray(idx["state_indexer"]).shape] if has_idx else [],
        "has_segments": seg is not None,
        "segments": [int(x) for x in np.asarray(seg["segment_ids"])] if seg is not None else [],
        "num_segments": int(seg["num_segments"]) if seg is not None else 0,
        "dense": [[k, [MDL.enc(x) for x in np.asarray(v)]] for k, v in sp.dense_vars.items()],
        "axis_names": list(info.axis_names),
    }


def run_scs(c):
    import numpy as np

    from lcm.state_space import create_state_choice_space

    pm, sn, an = _scs_model(c["sshape"], c["cshape"])
    _MASK["m"] = np.array(c["mask"], dtype=bool).reshape(tuple(c["sshape"]) + tuple(c["cshape"]))
    res = create_state_choice_space(model=pm, period=c.get("period", 0), is_last_period=c.get("is_last", False),
                                    jit_filter=c.get("jit_filter", False))
    out = dict(c)
    out["obs"] = _obs_scs(res)
    out["sparse_names"] = sn + an
    out["dense"] = [["d", [MDL.q(0), MDL.q(1)]], ["e", [MDL.q(0), MDL.q(1), MDL.q(2)]],
                    ["x", [MDL.q(0), MDL.q("1/2"), MDL.q(1)]]]
    out["tol"] = TOL
    return out


def run_scs_mdl(c):
    from lcm.input_processing import process_model
    from lcm.state_space import create_state_choice_space

    pm = process_model(MDL.build(c["mdl"]))
    res = create_state_choice_space(model=pm, period=c["period"], is_last_period=c["period"] == c["mdl"]["T"] - 1,
                                    jit_filter=c.get("jit_filter", False))
    out = dict(c)
    out["mdl"] = {k: v for k, v in c["mdl"].items() if k != "meta"}
    out["obs"] = _obs_scs(res)
    out["tol"] = TOL
    return out


RUNNERS = {"scs": run_scs, "scs-mdl": run_scs_mdl}


def run_unit(c):
    try:
        return RUNNERS[c["fn"]](c)
    except Exception as e:  # noqa: BLE001
        return _err(c, c["fn"], e)


def _chunk(cs):
    _worker_init()
    return [run_unit(c) for c in cs]


def run_units(cases, nproc=None, chunk=64):
    nproc = nproc or NPROC
    if not cases:
        return []
    chunks = [cases[i:i + chunk] for i in range(0, len(cases), chunk)]
    if nproc == 1 or len(chunks) == 1:
        return _chunk(cases)
    out = []
    with ProcessPoolExecutor(max_workers=min(nproc, len(chunks)), mp_context=get_context("spawn")) as ex:
        for r in ex.map(_chunk, chunks):
            out.extend(r)
    return out
