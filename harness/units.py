"""Drivers for the lower-level public entry points (C14-C20): one recorded call per case."""
from __future__ import annotations

import os
import traceback
from concurrent.futures import ProcessPoolExecutor
from multiprocessing import get_context

from . import mdl as MDL
from .drive import _worker_init

NPROC = int(os.environ.get("VERIF_NPROC", "16"))
TOL = [1, 4096]


def _err(c, op, e):
    return {"cid": c["cid"], "fn": "error", "op": op, "cls": type(e).__name__, "msg": str(e)[:300],
            "tb": traceback.format_exc()[-1200:], "input": {k: v for k, v in c.items() if k != "mdl"}}


# ----------------------------------------------------------------------------- C17
_SCS_MODELS = {}
_MASK = {"m": None}


def _scs_model(ss, cs):
    """A real Model with restricted states s0.. / choices a0.. (sizes ss / cs) whose single filter
    looks the current mask up, plus an unrestricted discrete state d, an unrestricted discrete
    choice e, a continuous state x and a continuous choice y."""
    import jax.numpy as jnp

    from lcm import DiscreteGrid, LinspaceGrid, Model
    from lcm.input_processing import process_model

    key = (tuple(ss), tuple(cs))
    if key in _SCS_MODELS:
        return _SCS_MODELS[key]
    sn = [f"s{i}" for i in range(len(ss))]
    an = [f"a{i}" for i in range(len(cs))]
    allv = sn + an
    ns = {"jnp": jnp, "MASK": _MASK}
    src = f"def t_filter({', '.join(allv)}):\n    return jnp.asarray(MASK['m'])[{', '.join(allv)}]\n"
    exec(src, ns)  # noqa: S102
    ua = [*allv, "d", "e", "x", "y"]
    exec(f"def utility({', '.join(ua)}):\n    return 0.0 + {' + '.join(ua)}\n", ns)  # noqa: S102
    funcs = {"utility": ns["utility"], "t_filter": ns["t_filter"]}
    for s in [*sn, "d", "x"]:
        exec(f"def next_{s}({s}):\n    return {s}\n", ns)  # noqa: S102
        funcs[f"next_{s}"] = ns[f"next_{s}"]
    D = lambda n: DiscreteGrid(MDL.category_class(n))  # noqa: E731
    # declaration order deliberately not canonical
    states = {"x": LinspaceGrid(start=0, stop=1, n_points=3), "d": D(2)}
    states.update({n: D(k) for n, k in zip(sn, ss, strict=True)})
    choices = {"y": LinspaceGrid(start=0, stop=1, n_points=2), "e": D(3)}
    choices.update({n: D(k) for n, k in zip(an, cs, strict=True)})
    pm = process_model(Model(n_periods=2, functions=funcs, states=states, choices=choices))
    _SCS_MODELS[key] = (pm, sn, an)
    return _SCS_MODELS[key]


def _obs_scs(res):
    import numpy as np

    sp, info, idx, seg = res
    names = list(sp.sparse_vars)
    n = len(next(iter(sp.sparse_vars.values()))) if names else 0
    combos = [[int(np.asarray(sp.sparse_vars[k])[r]) for k in names] for r in range(n)]
    has_idx = "state_indexer" in idx and idx["state_indexer"] is not None
    return {
        "sparse_names": names,
        "combos": combos,
        "has_indexer": bool(has_idx),
        "indexer": [int(x) for x in np.asarray(idx["state_indexer"]).ravel()] if has_idx else [],
        "indexer_shape": [int(x) for x in np.asarray(idx["state_indexer"]).shape] if has_idx else [],
        "has_segments": seg is not None,
        "segments": [int(x) for x in np.asarray(seg["segment_ids"])] if seg is not None else [],
        "num_segments": int(seg["num_segments"]) if seg is not None else 0,
        "dense": [[k, [MDL.enc(x) for x in np.asarray(v)]] for k, v in sp.dense_vars.items()],
        "axis_names": list(info.axis_names),
    }


def run_scs(c):
    import numpy as np

    from lcm.state_space import create_state_choice_space

    pm, sn, an = _scs_model(c["sshape"], c["cshape"])
    _MASK["m"] = np.array(c["mask"], dtype=bool).reshape(tuple(c["sshape"]) + tuple(c["cshape"]))
    res = create_state_choice_space(model=pm, period=c.get("period", 0), is_last_period=c.get("is_last", False),
                                    jit_filter=c.get("jit_filter", False))
    out = dict(c)
    out["obs"] = _obs_scs(res)
    out["sparse_names"] = sn + an
    out["dense"] = [["d", [MDL.q(0), MDL.q(1)]], ["e", [MDL.q(0), MDL.q(1), MDL.q(2)]],
                    ["x", [MDL.q(0), MDL.q("1/2"), MDL.q(1)]]]
    out["tol"] = TOL
    return out


def run_scs_mdl(c):
    from lcm.input_processing import process_model
    from lcm.state_space import create_state_choice_space

    pm = process_model(MDL.build(c["mdl"]))
    res = create_state_choice_space(model=pm, period=c["period"], is_last_period=c["period"] == c["mdl"]["T"] - 1,
                                    jit_filter=c.get("jit_filter", False))
    out = dict(c)
    out["mdl"] = {k: v for k, v in c["mdl"].items() if k != "meta"}
    out["obs"] = _obs_scs(res)
    out["tol"] = TOL
    return out


# ----------------------------------------------------------------------------- C18
_JIT = {}


def _fr(x):
    from fractions import Fraction as F
    if x[1] == 0:       # [1,0] = +inf, [-1,0] = -inf, [0,0] = NaN
        return float("inf") if x[0] > 0 else (float("-inf") if x[0] < 0 else float("nan"))
    return float(F(x[0], x[1]))


def run_argmax(c):
    """mode: eager | jit | fused (array computed inside the jitted function as u + beta * v)."""
    from functools import partial

    import jax
    import jax.numpy as jnp
    import numpy as np

    from lcm.argmax import argmax

    shape = tuple(c["shape"])
    axes = tuple(c["axes"])
    a = np.array([_fr(x) for x in c["a"]], dtype=np.float32).reshape(shape)
    where = np.array(c["where"], dtype=bool).reshape(shape) if c["has_where"] else None
    kw = {"axis": axes if len(axes) > 1 or c.get("axis_tuple", True) else axes[0]}
    if where is not None:
        kw["initial"] = -jnp.inf
    mode = c.get("mode", "eager")
    out = dict(c)
    if mode == "eager":
        idx, mx = argmax(jnp.asarray(a), where=None if where is None else jnp.asarray(where), **kw)
    elif mode == "jit":
        key = ("argmax", shape, axes, where is not None)
        if key not in _JIT:
            _JIT[key] = jax.jit(lambda arr, wh: argmax(arr, where=wh, **kw)) if where is not None else jax.jit(
                lambda arr: argmax(arr, **kw))
        idx, mx = _JIT[key](jnp.asarray(a), jnp.asarray(where)) if where is not None else _JIT[key](jnp.asarray(a))
    else:
        u = np.array(c["u"], dtype=np.float32).reshape(shape)
        v = np.array(c["v"], dtype=np.float32).reshape(shape)
        beta = np.float32(c["beta"])
        key = ("fused", shape, axes, where is not None)
        if key not in _JIT:
            if where is not None:
                _JIT[key] = jax.jit(lambda u_, v_, b_, wh: argmax(u_ + b_ * v_, where=wh, **kw))
            else:
                _JIT[key] = jax.jit(lambda u_, v_, b_: argmax(u_ + b_ * v_, **kw))
        args = (jnp.asarray(u), jnp.asarray(v), beta) + ((jnp.asarray(where),) if where is not None else ())
        idx, mx = _JIT[key](*args)
        # the array as an eager float32 computation of the same expression (what "the array" means to a user)
        a = np.asarray(jnp.asarray(u) + beta * jnp.asarray(v))
        out["a"] = [MDL.enc(x) for x in a.ravel()]
    out["obs"] = {"idx": [int(x) for x in np.asarray(idx).ravel()], "max": [MDL.enc(x) for x in np.asarray(mx).ravel()],
                  "shape": [int(x) for x in np.asarray(idx).shape]}
    if not c["has_where"]:
        out["where"] = [True] * len(c["a"])
    out.pop("u", None)
    out.pop("v", None)
    return out


def run_segargmax(c):
    import jax
    import jax.numpy as jnp
    import numpy as np

    from lcm.argmax import segment_argmax

    shape = tuple(c["shape"])
    data = np.array([_fr(x) for x in c["data"]], dtype=np.float32).reshape(shape)
    seg = np.repeat(np.arange(len(c["lens"])), c["lens"])
    f = segment_argmax
    if c.get("mode") == "jit":
        f = jax.jit(segment_argmax, static_argnames=["num_segments"])
    idx, mx = f(jnp.asarray(data), segment_ids=jnp.asarray(seg), num_segments=len(c["lens"]))
    out = dict(c)
    out["obs"] = {"idx": [int(x) for x in np.asarray(idx).ravel()], "max": [MDL.enc(x) for x in np.asarray(mx).ravel()]}
    return out


def run_reduce(c):
    import jax
    import jax.numpy as jnp
    import numpy as np
    import pandas as pd

    from lcm.discrete_problem import get_solve_discrete_problem
    from lcm.typing import ShockType

    rows = []
    if c["has_rows"]:
        rows.append(("s0", dict(is_sparse=True, is_choice=False, is_continuous=False)))
        if c.get("sparse_choice", True):     # filters may restrict states only: then there is no restricted choice
            rows.append(("a0", dict(is_sparse=True, is_choice=True, is_continuous=False)))
    for i, (ch, cont) in enumerate(zip(c["is_choice"], c["is_cont"], strict=True)):
        rows.append((f"v{i}", dict(is_sparse=False, is_choice=bool(ch), is_continuous=bool(cont))))
    rows.append(("ccont", dict(is_sparse=False, is_choice=True, is_continuous=True)))   # continuous choice: no axis
    vi = pd.DataFrame([r[1] for r in rows], index=[r[0] for r in rows])
    vi["is_state"] = ~vi["is_choice"]
    vi["is_dense"] = ~vi["is_sparse"]
    vi["is_discrete"] = ~vi["is_continuous"]
    vi["is_auxiliary"] = False
    vi["is_stochastic"] = False
    seg = None
    if c["has_rows"]:
        seg = {"segment_ids": jnp.asarray(np.repeat(np.arange(len(c["lens"])), c["lens"])), "num_segments": len(c["lens"])}
    f = get_solve_discrete_problem(random_utility_shock_type=ShockType.NONE, variable_info=vi,
                                   is_last_period=bool(c.get("is_last", False)), choice_segments=seg)
    cc = jnp.asarray(np.array([_fr(x) for x in c["cc"]], dtype=np.float32).reshape(tuple(c["shape"])))
    res = jax.jit(lambda x: f(x, params={}))(cc) if c.get("mode") == "jit" else f(cc, params={})
    out = dict(c)
    out["obs"] = {"shape": [int(x) for x in res.shape], "out": [MDL.enc(x) for x in np.asarray(res).ravel()]}
    return out


# ----------------------------------------------------------------------------- C19
def _mk_f(sig, leaves=("id",), defaults=False):
    """def f(a, b, /, c, *, d): s = 1*a + 10*b + 100*c + 1000*d; return <pytree of s>"""
    parts = []
    names = [p["name"] for p in sig]
    kinds = [p["kind"] for p in sig]
    for i, n in enumerate(names):
        if kinds[i] == "kw" and (i == 0 or kinds[i - 1] != "kw"):
            parts.append("*")
        parts.append(n + ("=9" if defaults else ""))
        if kinds[i] == "pos" and (i + 1 == len(names) or kinds[i + 1] != "pos"):
            parts.append("/")
    body = " + ".join(f"{10 ** i} * {n}" for i, n in enumerate(names))
    tr = {"id": "s", "double": "2 * s", "inc": "s + 1", "vec": "jnp.array([s, 2 * s, s + 1])"}
    if list(leaves) == ["id"]:
        ret = "s"
    elif list(leaves) == ["vec"]:
        ret = "jnp.array([s, 2 * s, s + 1])"
    elif len(leaves) == 2 and leaves[1] == "double":
        ret = "(s, 2 * s)"
    else:
        ret = "{" + ", ".join(f"'k{j}': {tr[t]}" for j, t in enumerate(leaves)) + "}"
    import jax.numpy as jnp

    ns = {"jnp": jnp}
    exec(f"def f({', '.join(parts)}):\n    s = {body}\n    return {ret}\n", ns)  # noqa: S102
    return ns["f"]


def _toint(x):
    x = float(x)
    return int(x) if x == int(x) and abs(x) < 2**30 else -1


def run_map(c):
    import jax
    import jax.numpy as jnp
    import numpy as np

    from lcm.dispatchers import productmap, spacemap, vmap_1d

    out = dict(c)
    try:
        f = _mk_f(c["sig"], c["leaves"])
        names = [p["name"] for p in c["sig"]]
        vals = {n: (jnp.asarray(c["arrays"][n]) if n in c["arrays"] and (n in c["product"] or n in c["joint"]) else c["scalars"][n])
                for n in names}
        v = c["variant"]
        if v == "productmap":
            g = productmap(f, variables=list(c["product"]))
        elif v == "vmap_1d":
            g = vmap_1d(f, variables=list(c["joint"]), callable_with=c.get("callable_with", "only_kwargs"))
        else:
            g = spacemap(f, dense_vars=list(c["product"]), sparse_vars=list(c["joint"]), put_dense_first=bool(c["dense_first"]))
        if c.get("jit"):
            g = jax.jit(g)
        order = c.get("kworder") or names
        cm = c["callmode"]
        if v == "vmap_1d" and c.get("callable_with") == "only_args" and cm == "ok":
            res = g(*[vals[n] for n in names])
        elif cm == "ok":
            res = g(**{n: vals[n] for n in order})
        elif cm == "missing":
            res = g(**{n: vals[n] for n in order[1:]})
        elif cm == "extra":
            res = g(**{n: vals[n] for n in order}, zz=1)
        else:
            res = g(*[vals[n] for n in names])
        leaves = jax.tree_util.tree_leaves(res)
        out["obs"] = {"error": False, "cls": "", "msg": "",
                      "leaves": [{"shape": [int(x) for x in np.asarray(l).shape], "out": [_toint(x) for x in np.asarray(l).ravel()]} for l in leaves]}
    except Exception as e:  # noqa: BLE001
        out["obs"] = {"error": True, "cls": type(e).__name__, "msg": str(e)[:200], "leaves": []}
    return out


def run_call(c):
    from lcm.functools import all_as_args, all_as_kwargs, allow_args, allow_only_kwargs, convert_kwargs_to_args

    out = dict(c)
    f = _mk_f(c["sig"], defaults=bool(c.get("defaults")))
    names = [p["name"] for p in c["sig"]]
    if c["wrapper"] in ("all_as_kwargs", "all_as_args", "convert_kwargs_to_args"):
        # helpers: the value bound to each name, encoded like the test function (sum 10^position * value)
        args = tuple(range(1, c["call"]["nargs"] + 1))
        kwargs = {n: 4 + names.index(n) + 1 for n in c["call"]["kw"]}
        try:
            if c["wrapper"] == "all_as_kwargs":
                d = all_as_kwargs(args, kwargs, arg_names=names)
                val = sum(10 ** names.index(k) * v for k, v in d.items()) if set(d) == set(names) else -2
            elif c["wrapper"] == "all_as_args":
                t = all_as_args(args, kwargs, arg_names=names)
                val = sum(10 ** i * v for i, v in enumerate(t)) if len(t) == len(names) else -2
            else:
                t = convert_kwargs_to_args(kwargs, names)
                val = sum(10 ** i * v for i, v in enumerate(list(args) + list(t))) if len(args) + len(t) == len(names) else -2
            out["obs"] = {"error": False, "value": _toint(val), "cls": "", "msg": ""}
        except (ValueError, TypeError) as e:
            out["obs"] = {"error": True, "value": -1, "cls": type(e).__name__, "msg": str(e)[:200]}
        return out
    w = allow_only_kwargs(f) if c["wrapper"] == "allow_only_kwargs" else allow_args(f)
    args = list(range(1, c["call"]["nargs"] + 1))
    kwargs = {n: (4 + names.index(n) + 1 if n in names else 0) for n in c["call"]["kw"]}
    try:
        val = w(*args, **kwargs)
        out["obs"] = {"error": False, "value": _toint(val), "cls": "", "msg": ""}
    except (ValueError, TypeError) as e:
        out["obs"] = {"error": True, "value": -1, "cls": type(e).__name__, "msg": str(e)[:200]}
    return out


# ----------------------------------------------------------------------------- C15
def run_mapcoord(c):
    import jax.numpy as jnp
    import numpy as np

    from lcm.ndimage import map_coordinates

    arr = jnp.asarray(np.array([_fr(x) for x in c["arr"]], dtype=np.int32 if c.get("int_dtype") else np.float32).reshape(tuple(c["shape"])))
    pts = np.array([[_fr(x) for x in p] for p in c["points"]], dtype=np.float32)      # (B, rank)
    out = dict(c)
    out["int_dtype"] = bool(c.get("int_dtype"))
    # int_axes: axes whose coordinates are all whole numbers are passed as integer-typed arrays (node positions as integers)
    ints = [k for k in (c.get("int_axes") or []) if np.all(pts[:, k] == np.round(pts[:, k]))]

    def conv(x, k):
        return jnp.asarray(np.asarray(x).astype(np.int32)) if k in ints else jnp.asarray(x)
    if c.get("batched", True):
        coords = [conv(pts[:, k], k) for k in range(pts.shape[1])]
        res = np.asarray(map_coordinates(arr, coords)).ravel()
    else:
        res = np.array([float(map_coordinates(arr, [conv(x, k) for k, x in enumerate(p)])) for p in pts])
    out["obs"] = [MDL.enc(x, quant_den=c.get("quant", 1024)) for x in res]
    return out


def run_gridcoord(c):
    import jax.numpy as jnp
    import numpy as np

    from lcm.ndimage import map_coordinates

    g = MDL.build_grid(c["grid"])
    nodes = g.to_jax()
    xs = jnp.asarray(np.array([_fr(x) for x in c["xs"]], dtype=np.float32))
    coords = np.asarray(g.get_coordinate(xs))
    node_coords = np.asarray(g.get_coordinate(nodes))
    rt = np.asarray(map_coordinates(nodes, [jnp.asarray(coords)]))
    qd = c.get("quant", 4096)
    out = dict(c)
    out["obs"] = {"coords": [MDL.enc(x, quant_den=qd) for x in coords], "node_coords": [MDL.enc(x, quant_den=qd) for x in node_coords],
                  "roundtrip": [MDL.enc(x, quant_den=qd) for x in rt]}
    return out


# ----------------------------------------------------------------------------- C14
def run_funcrep(c):
    """mixed: 64-bit mode with a float32 value array and float64 evaluation points (mixed precision)."""
    if c.get("mixed"):
        import jax

        with jax.enable_x64(True):
            return _run_funcrep(c)
    return _run_funcrep(c)


def _run_funcrep(c):
    import jax.numpy as jnp
    import numpy as np

    from lcm import DiscreteGrid
    from lcm.function_representation import get_function_representation
    from lcm.interfaces import IndexerInfo, SpaceInfo

    sn = [f"s{i}" for i in range(len(c["sparse"]))]
    dn = [f"d{i}" for i in range(len(c["dense"]))]
    cn = [f"x{i}" for i in range(len(c["cont"]))]
    import random as _random

    _r = _random.Random(c["cid"])
    lk = list(zip(sn + dn, list(c["sparse"]) + list(c["dense"]), strict=True))
    ip = list(zip(cn, c["cont"], strict=True))
    _r.shuffle(lk)      # the dictionaries are keyed by name: their insertion order carries no meaning
    _r.shuffle(ip)
    lookup = {n: DiscreteGrid(MDL.category_class(k)) for n, k in lk}
    interp = {n: MDL.build_grid(g) for n, g in ip}
    axis_names = (["state_index"] if sn else []) + dn + cn
    infos = [IndexerInfo(axis_names=sn, name="state_indexer", out_name="state_index")] if sn else []
    si = SpaceInfo(axis_names=axis_names, lookup_info=lookup, interpolation_info=interp, indexer_infos=infos)
    prefix = c.get("prefix", "")
    f = get_function_representation(si, "vf_arr", input_prefix=prefix)
    shape = ([c["nadm"]] if sn else []) + list(c["dense"]) + [g["n"] for g in c["cont"]]
    arr = jnp.asarray(np.array([_fr(x) for x in c["arr"]], dtype=np.float32).reshape(tuple(shape)))
    kw = {"vf_arr": arr}
    if sn:
        kw["state_indexer"] = jnp.asarray(np.array(c["indexer"], dtype=np.int32).reshape(tuple(c["sparse"])))
    res = []
    for pt in c["points"]:
        a = dict(kw)
        for n, v in zip(sn, pt["sparse"], strict=True):
            a[prefix + n] = v
        for n, v in zip(dn, pt["dense"], strict=True):
            a[prefix + n] = v
        for n, v in zip(cn, pt["cont"], strict=True):
            a[prefix + n] = jnp.float64(_fr(v)) if c.get("mixed") else jnp.float32(_fr(v))
        res.append(float(f(**a)))
    out = dict(c)
    out["obs"] = [MDL.enc(x) for x in res]
    return out


# ----------------------------------------------------------------------------- C16
def _value_object(cls):
    import numpy as np

    return {"neg": -2.5, "zero": 0, "pos": 1.5, "posint": 3, "four": 4.0, "big": 100000.0, "small": 0.001,
            "nan": float("nan"), "inf": float("inf"), "ninf": float("-inf"), "true": True,
            "npf64": np.float64(2.0), "npf32": np.float32(2.0), "npi64": np.int64(2),
            "str": "1", "none": None, "list": [1.0]}[cls]


def _count_object(cls):
    return {"n0": 0, "n1": 1, "n2": 2, "n3": 3, "n5": 5, "nneg": -1, "nfloat": 3.0, "ntrue": True, "nstr": "3", "nnone": None}[cls]


def _grid_obs(kind, start, stop, n):
    """Construct the grid and return normalised observations of its array form (see Grids!GridLawsClause)."""
    import math

    import numpy as np

    from lcm import LinspaceGrid, LogspaceGrid
    from lcm.exceptions import GridInitializationError

    empty = {"len": 0, "finite": True, "first": [0, 1], "last": [0, 1], "increasing": True, "steps": [], "cls": "", "msg": ""}
    try:
        g = (LinspaceGrid if kind == "lin" else LogspaceGrid)(start=start, stop=stop, n_points=n)
        arr = np.asarray(g.to_jax(), dtype=np.float64)
    except GridInitializationError:
        return {**empty, "outcome": "reject"}
    except Exception as e:  # noqa: BLE001
        return {**empty, "outcome": "other-error", "cls": type(e).__name__, "msg": str(e)[:150]}
    o = dict(empty, outcome="ok", len=int(arr.shape[0]) if arr.ndim == 1 else -1)
    o["finite"] = bool(np.isfinite(arr).all())
    try:
        s, e_ = float(start), float(stop)
        npts = int(n)
        if o["finite"] and arr.ndim == 1 and len(arr) >= 1 and math.isfinite(s) and math.isfinite(e_):
            qd = 1 << 14
            if kind == "lin":
                scale = max(abs(s), abs(e_), abs(e_ - s), 1e-300)
                o["first"] = MDL.enc((arr[0] - s) / scale, quant_den=qd)
                o["last"] = MDL.enc((arr[-1] - e_) / scale, quant_den=qd)
                if len(arr) >= 2 and npts >= 2:
                    step = (e_ - s) / (npts - 1)
                    o["steps"] = [MDL.enc(x / step, quant_den=qd) for x in np.diff(arr)]
            else:
                o["first"] = MDL.enc(arr[0] / s - 1.0, quant_den=qd)
                o["last"] = MDL.enc(arr[-1] / e_ - 1.0, quant_den=qd)
                if len(arr) >= 2 and npts >= 2 and (arr > 0).all():
                    ratio = (e_ / s) ** (1.0 / (npts - 1))
                    o["steps"] = [MDL.enc(x / ratio, quant_den=qd) for x in arr[1:] / arr[:-1]]
            o["increasing"] = bool((np.diff(arr) > 0).all())
    except (TypeError, ValueError):
        pass
    return o


def run_grid(c):
    out = dict(c)
    if "values" in c:
        start, stop, n = c["values"]
    else:
        start, stop, n = _value_object(c["s"]), _value_object(c["e"]), _count_object(c["n"])
    out["obs"] = _grid_obs(c["kind"], start, stop, n)
    out.pop("values", None)
    return out


def _category_object(cls):
    from dataclasses import dataclass, make_dataclass

    mk = lambda vals: make_dataclass("Cat", [(f"f{i}", type(v), v) for i, v in enumerate(vals)])  # noqa: E731
    if cls in ("classvar_valid", "classvar_invalid", "initvar_trailing"):
        # written as source and compiled without this module's `from __future__ import annotations`: real annotation objects
        ns = {}
        src = {"classvar_valid": "description: ClassVar[str] = 'labour supply'\n    bad: int = 0\n    good: int = 1",
               "classvar_invalid": "n_instances: ClassVar[int] = 0\n    low: int = 1\n    high: int = 2",
               "initvar_trailing": "low: int = 0\n    high: int = 1\n    scale: InitVar[int] = 2"}[cls]
        code = "from dataclasses import dataclass, InitVar\nfrom typing import ClassVar\n@dataclass\nclass Cat:\n    " + src + "\n"
        exec(compile(code, "<category class>", "exec", dont_inherit=True), ns)  # noqa: S102  (dont_inherit: real annotations, not strings)
        return ns["Cat"]
    if cls == "plain":
        class Plain:
            a = 0
            b = 1
        return Plain
    if cls == "missing":
        @dataclass
        class Missing:
            a: int = 0
            b: int = None  # type: ignore[assignment]
        return make_dataclass("Missing2", [("b", int), ("a", int, 0)])
    if cls == "instance":
        return mk([0, 1])()
    return mk({"codes2": [0, 1], "codes3": [0, 1, 2], "codes1": [0], "floats": [0.0, 1.0, 2.0], "bools": [False, True],
               "gap": [0, 2], "permuted": [1, 0], "dup": [0, 0], "from1": [1, 2], "negative": [-1, 0], "half": [0, 0.5, 1],
               "nonnum": [0, "a"], "codes4": [0, 1, 2, 3], "codes5": [0, 1, 2, 3, 4], "half_in": [0, 0.5, 2], "frac_in": [0, 1, 2.5, 3],
               "nan_in": [0, float("nan"), 2], "swap_in": [0, 2, 1, 3], "dup_in": [0, 1, 1, 3], "skip_in": [0, 1, 3, 4],
               "inf_end": [0, 1, float("inf")]}[cls])


def run_dgrid(c):
    import numpy as np

    from lcm import DiscreteGrid
    from lcm.exceptions import GridInitializationError

    out = dict(c)
    try:
        g = DiscreteGrid(_category_object(c["cls"]))
        arr = np.asarray(g.to_jax(), dtype=np.float64)
        out["obs"] = {"outcome": "ok", "codes": [MDL.enc(x) for x in arr.ravel()], "cls": "", "msg": ""}
    except GridInitializationError:
        out["obs"] = {"outcome": "reject", "codes": [], "cls": "", "msg": ""}
    except Exception as e:  # noqa: BLE001
        out["obs"] = {"outcome": "other-error", "codes": [], "cls": type(e).__name__, "msg": str(e)[:150]}
    return out


# ----------------------------------------------------------------------------- C20
def _emax(values, layout, sizes, scale):
    """values: list of groups (lists of floats).  layout 'axes': equal group sizes, choices along the last
    axis (and a second arrangement along axis 0); 'segments': groups as segments of the leading axis."""
    import jax.numpy as jnp
    import numpy as np

    from lcm.discrete_problem import _calculate_emax_extreme_value_shocks

    params = {"additive_utility_shock": {"scale": scale}}
    if layout == "axes":
        arr = jnp.asarray(np.array(values, dtype=np.float32))                       # (states, choices)
        return np.asarray(_calculate_emax_extreme_value_shocks(arr, choice_axes=1, choice_segments=None, params=params), dtype=np.float64)
    if layout == "axes0":
        arr = jnp.asarray(np.array(values, dtype=np.float32).T)                     # (choices, states)
        return np.asarray(_calculate_emax_extreme_value_shocks(arr, choice_axes=(0,), choice_segments=None, params=params), dtype=np.float64)
    if layout == "both":
        # every group has 2k values: k rows of the leading axis (a segment) x 2 entries of a dense choice axis
        rows = [g[2 * r: 2 * r + 2] for g in values for r in range(len(g) // 2)]
        arr = jnp.asarray(np.array(rows, dtype=np.float32))                         # (rows, 2)
        seg = {"segment_ids": jnp.asarray(np.repeat(np.arange(len(values)), [len(g) // 2 for g in values])), "num_segments": len(values)}
        return np.asarray(_calculate_emax_extreme_value_shocks(arr, choice_axes=1, choice_segments=seg, params=params), dtype=np.float64)
    flat = jnp.asarray(np.array([x for g in values for x in g], dtype=np.float32))
    seg = {"segment_ids": jnp.asarray(np.repeat(np.arange(len(values)), sizes)), "num_segments": len(values)}
    return np.asarray(_calculate_emax_extreme_value_shocks(flat, choice_axes=None, choice_segments=seg, params=params), dtype=np.float64)


def run_lse_exact(c):
    import math

    import numpy as np

    s = float(c["scale"])
    vals = [[np.float32(s * math.log(2.0) * m) for m in g] for g in c["groups"]]
    sizes = [len(g) for g in c["groups"]]
    r = _emax(vals, c["layout"], sizes, s)
    mx = np.array([max(float(x) for x in g) for g in vals])
    out = dict(c)
    out["obs"] = {"finite": bool(np.isfinite(r).all()),
                  "k": [MDL.enc(x, quant_den=1 << 12) for x in (r - mx) / (s * math.log(2.0))] if np.isfinite(r).all() else []}
    return out


def run_lse_laws(c):
    import numpy as np

    s = float(c["scale"])
    vals = [[np.float32(x) for x in g] for g in c["values"]]
    sizes = [len(g) for g in vals]
    cshift = np.float32(c["shift"])
    unit = float(c["unit"])
    equal = len(set(sizes)) == 1
    r_seg = _emax(vals, "segments", sizes, s)
    r_ax = _emax(vals, "axes", sizes, s) if equal else r_seg
    r_ax0 = _emax(vals, "axes0", sizes, s) if equal else r_seg
    r = r_ax if c["layout"] == "axes" else r_seg
    shifted = [[np.float32(x + cshift) for x in g] for g in vals]
    r_sh = _emax(shifted, c["layout"] if equal else "segments", sizes, s)
    mx = np.array([max(float(x) for x in g) for g in vals])
    fin = bool(np.isfinite(r).all() and np.isfinite(r_sh).all() and np.isfinite(r_ax0).all() and np.isfinite(r_seg).all())
    out = dict(c)
    qd = 1 << 12
    out["sizes"] = sizes
    if fin:
        out["obs"] = {"finite": True,
                      "excess": [MDL.enc(x, quant_den=qd) for x in (r - mx) / s],
                      "shift": [MDL.enc(x, quant_den=qd) for x in (r_sh - r - float(cshift)) / unit],
                      "layout": [MDL.enc(x, quant_den=qd) for x in np.maximum(np.abs(r_ax - r_seg), np.abs(r_ax0 - r_seg)) / unit]}
    else:
        out["obs"] = {"finite": False, "excess": [], "shift": [], "layout": []}
    out.pop("values")
    return out


# ----------------------------------------------------------------------------- C12
class _Stop(Exception):
    pass


def run_lifecycle(c):  # noqa: C901, PLR0912, PLR0915
    """Build grids, Model, functions and make the first calls for a base template with a set of violated
    documented rules; record the outcome of every stage (also on the error path)."""
    import random

    import jax.numpy as jnp

    import lcm
    from lcm import LinspaceGrid, Model
    from lcm.entry_point import get_lcm_function

    m = c["mdl"]
    rules = set(c["rules"])
    rng = random.Random(c.get("variant", 0))
    trace = []

    def stage(name, fn):
        try:
            r = fn()
        except Exception as e:  # noqa: BLE001
            trace.append({"stage": name, "ok": False, "cls": type(e).__name__, "msg": str(e)[:160]})
            raise _Stop from e
        trace.append({"stage": name, "ok": True, "cls": "", "msg": ""})
        return r

    sn, cn = MDL.state_names(m), MDL.choice_names(m)
    cont_states = [v["name"] for v in m["vars"] if v["role"] == "state" and v["kind"] != "disc"]
    disc_states = [v["name"] for v in m["vars"] if v["role"] == "state" and v["kind"] == "disc"]
    disc_choices = [v["name"] for v in m["vars"] if v["role"] == "choice" and v["kind"] == "disc"]
    try:
        def mk_grids():
            g = {v["name"]: MDL.build_grid(v) for v in m["vars"]}
            if "R8" in rules:
                name = rng.choice(list(g))
                # one of the invalid grid specifications the documentation rules out (both constructors, every argument:
                # wrong order, wrong type -- also types that cannot even be compared --, non-finite, too few points, not a
                # category class)
                bad = [
                    lambda: LinspaceGrid(start=1, stop=0, n_points=3),
                    lambda: LinspaceGrid(start=0, stop=1, n_points=0),
                    lambda: lcm.LogspaceGrid(start=0, stop="1", n_points=3),
                    lambda: lcm.DiscreteGrid(object),   # not a dataclass
                    lambda: lcm.LogspaceGrid(start="1", stop=2, n_points=3),
                    lambda: lcm.LogspaceGrid(start=None, stop=2, n_points=3),
                    lambda: lcm.LogspaceGrid(start=[1], stop=2, n_points=3),
                    lambda: lcm.LogspaceGrid(start=1 + 2j, stop=2, n_points=3),
                    lambda: lcm.LogspaceGrid(start=1, stop=None, n_points=3),
                    lambda: LinspaceGrid(start="0", stop=1, n_points=3),
                    lambda: LinspaceGrid(start=None, stop=1, n_points=3),
                    lambda: LinspaceGrid(start=0, stop=[1], n_points=3),
                    lambda: LinspaceGrid(start=0, stop=1, n_points="3"),
                    lambda: LinspaceGrid(start=0, stop=1, n_points=None),
                    lambda: LinspaceGrid(start=0, stop=1, n_points=2.5),
                    lambda: lcm.LogspaceGrid(start=1, stop=2, n_points=-1),
                    lambda: LinspaceGrid(start=2, stop=2, n_points=3),
                    lambda: lcm.LogspaceGrid(start=-1, stop=2, n_points=3),
                    lambda: LinspaceGrid(start=float("nan"), stop=1, n_points=3),
                    lambda: lcm.LogspaceGrid(start=1, stop=float("inf"), n_points=3),
                    lambda: lcm.DiscreteGrid(None),
                ]
                k = rng.randrange(4) if c.get("variant", 0) % 3 == 0 else rng.randrange(len(bad))
                g[name] = bad[k]()
            return g
        grids = stage("grid", mk_grids)

        def mk_model():
            funcs = MDL.build_functions(m)
            states = {n: grids[n] for n in sn}
            choices = {n: grids[n] for n in cn}
            n_periods = m["T"]
            ns = {"lcm": lcm, "jnp": jnp}
            if "R1" in rules:
                n_periods = rng.choice([0, -1])
            if "R2" in rules:
                del funcs["utility"]
            if "R3" in rules:
                del funcs["next_" + rng.choice(sn)]
            if "R4" in rules:
                choices[rng.choice(sn)] = grids[cn[0]] if cn else grids[sn[0]]
            if "R6" in rules:
                u6 = rng.random()
                if u6 >= 0.67:
                    # a stochastic transition ON a continuous state whose signature lists only discrete variables or the period
                    w = cont_states[0]
                    dep = rng.choice(([disc_states[0]] if disc_states else []) + ([disc_choices[0]] if disc_choices else []) + ["_period"])
                    exec(f"@lcm.mark.stochastic\ndef next_{w}({dep}):\n    pass\n", ns)  # noqa: S102
                    funcs[f"next_{w}"] = ns[f"next_{w}"]
                elif u6 < 0.34 or not disc_states:
                    w = cont_states[0]
                    exec(f"@lcm.mark.stochastic\ndef next_{w}({w}):\n    pass\n", ns)  # noqa: S102
                    funcs[f"next_{w}"] = ns[f"next_{w}"]
                else:
                    h, w = disc_states[0], cont_states[0]
                    exec(f"@lcm.mark.stochastic\ndef next_{h}({h}, {w}):\n    pass\n", ns)  # noqa: S102
                    funcs[f"next_{h}"] = ns[f"next_{h}"]
            if "R7" in rules:
                h, a = disc_states[0], disc_choices[0]
                exec(f"def p_filter({h}, {a}, kpar):\n    return {a} <= {h} + kpar\n", ns)  # noqa: S102
                funcs["p_filter"] = ns["p_filter"]
            if "R5" in rules:
                k = rng.randrange(5)
                if k == 0:
                    states[sn[0]] = [0.0, 1.0]
                elif k == 1:
                    funcs["utility" if "utility" in funcs else next(iter(funcs))] = 3.0
                elif k == 2:
                    funcs = list(funcs.values())
                elif k == 3:
                    choices = list(choices)
                else:
                    states[7] = states.pop(sn[0])
            if c.get("via_replace"):
                # the specification is written down in two steps: a valid model first, then Model.replace with the
                # (rule-violating) attributes -- a model obtained that way is a specification like any other
                valid = MDL.build(m)
                return valid.replace(n_periods=n_periods, functions=funcs, states=states, choices=choices)
            return Model(n_periods=n_periods, functions=funcs, states=states, choices=choices)
        model = stage("model", mk_model)

        def mk_functions():
            f1, tmpl = get_lcm_function(model, targets="solve", debug_mode=False, jit=bool(c.get("jit", True)))
            f2, _ = get_lcm_function(model, targets="solve_and_simulate", debug_mode=False, jit=bool(c.get("jit", True)))
            f3, _ = get_lcm_function(model, targets="simulate", debug_mode=False, jit=bool(c.get("jit", True)))
            return f1, f2, f3, tmpl
        f_solve, f_sim, f_sim_only, tmpl = stage("functions", mk_functions)
        params = MDL.params(m)
        solved = stage("solve", lambda: f_solve(params))
        from .drive import _init_arrays
        from fractions import Fraction as F
        init = {k: [F(x[0], x[1]) for x in v] for k, v in c["init"].items()}
        stage("simulate", lambda: f_sim(params, initial_states=_init_arrays(m, init), seed=c.get("seed", 0)))
        stage("resimulate", lambda: [f_sim_only(params, initial_states=_init_arrays(m, init), vf_arr_list=solved, seed=s_)
                                     for s_ in (c.get("seed", 0), c.get("seed", 0) + 1)])
    except _Stop:
        pass
    out = {k: v for k, v in c.items() if k != "mdl"}
    out["mdl_summary"] = {"T": m["T"], "vars": [[v["name"], v["role"], v["kind"], v["n"]] for v in m["vars"]],
                          "funcs": [[f["name"], f["kind"], f["args"]] for f in m["funcs"]]}
    out["trace"] = trace
    return out


# ----------------------------------------------------------------------------- beyond the properties: forward mask
def run_fwdmask(c):
    import jax.numpy as jnp
    import numpy as np

    from lcm.state_space import create_forward_mask

    names = c["names"]                      # all variables (states first), sizes in c["allsizes"]
    grids = {n: jnp.arange(k) for n, k in zip(names, c["allsizes"], strict=True)}
    initial = {n: jnp.asarray([r[n] for r in c["rows"]]) for n in names}
    ns = {"jnp": jnp}
    nextf = {}
    for k, st in enumerate(c["states"]):
        spec = c["nxt"][k]
        if spec["args"] == ["-"]:
            if c.get("missing_arg"):      # a transition function whose argument is not available: must be ignored
                exec(f"def next_{st}(zz_unknown):\n    return zz_unknown\n", ns)  # noqa: S102
                nextf[f"next_{st}"] = ns[f"next_{st}"]
            continue
        tab = np.array([[x[0] for x in row] if isinstance(row[0], list) and isinstance(row[0][0], int) else row for row in [spec["tab"]]][0]) if False else None
        ns[f"_T{k}"] = jnp.asarray(np.array(spec["tab"])[..., 0])
        args = ", ".join(spec["args"])
        exec(f"def next_{st}({args}):\n    return _T{k}[{args}]\n", ns)  # noqa: S102
        nextf[f"next_{st}"] = ns[f"next_{st}"]
    out = dict(c)
    mask = create_forward_mask(initial=initial, grids=grids, next_functions=nextf, jit_next=bool(c.get("jit", True)))
    out["obs"] = [bool(x) for x in np.asarray(mask).ravel()]
    return out


def run_errreport(c):
    """Model(...) with several documented rules violated at once: which of them does the one error name?  (The phrases come
    from the specification: Lifecycle!RuleMarker, printed by MC_Lifecycle.)"""
    import random

    from lcm import Model

    m = c["mdl"]
    rules = set(c["rules"])
    rng = random.Random(c.get("variant", 0))
    sn, cn = MDL.state_names(m), MDL.choice_names(m)
    grids = {v["name"]: MDL.build_grid(v) for v in m["vars"]}
    funcs = MDL.build_functions(m)
    states = {n: grids[n] for n in sn}
    choices = {n: grids[n] for n in cn}
    n_periods = m["T"]
    if "R1" in rules:
        n_periods = rng.choice([0, -1])
    if "R2" in rules:
        del funcs["utility"]
    if "R3" in rules:
        del funcs["next_" + rng.choice(sn)]
    if "R4" in rules:
        choices[rng.choice(sn)] = grids[cn[0]] if cn else grids[sn[0]]
    out = {k: v for k, v in c.items() if k not in ("mdl", "markers")}
    try:
        Model(n_periods=n_periods, functions=funcs, states=states, choices=choices)
        out["obs"] = {"cls": "accepted", "mentions": []}
    except Exception as e:  # noqa: BLE001
        out["obs"] = {"cls": type(e).__name__, "mentions": sorted(r for r, phrase in c["markers"].items() if phrase in str(e))}
    return out


def run_replace(c):
    """Model.replace: a new validated object, the original untouched."""
    import dataclasses

    m = c["mdl"]
    model = MDL.build(m)
    before = (model.n_periods, dict(model.functions), dict(model.states), dict(model.choices), model.description)
    field = c["field"]
    if field == "n_periods":
        new_val, bad_val = model.n_periods + 1, 0
    elif field == "description":
        new_val, bad_val = "another description", None
    elif field == "functions":
        new_val = {k: v for k, v in reversed(list(model.functions.items()))}
        bad_val = {k: v for k, v in model.functions.items() if k != "utility"}
    else:  # states
        new_val = {k: v for k, v in reversed(list(model.states.items()))}
        bad_val = {**model.states, next(iter(model.choices)): next(iter(model.states.values()))}
    new = model.replace(**{field: new_val})
    after = (model.n_periods, dict(model.functions), dict(model.states), dict(model.choices), model.description)
    others = [f.name for f in dataclasses.fields(model) if f.name != field]
    cls = ""
    if bad_val is not None:
        try:
            model.replace(**{field: bad_val})
            cls = "accepted"
        except Exception as e:  # noqa: BLE001
            cls = type(e).__name__
    else:
        cls = "ModelInitilizationError"      # description has no invalid value
    out = {k: v for k, v in c.items() if k != "mdl"}
    out["obs"] = {"orig_unchanged": before == after, "is_new_object": new is not model, "new_has_value": getattr(new, field) == new_val,
                  "others_kept": all(getattr(new, n) == getattr(model, n) for n in others), "invalid_rejected_cls": cls}
    return out


RUNNERS = {"errreport": run_errreport, "replace": run_replace, "fwdmask": run_fwdmask, "lifecycle": run_lifecycle, "lse-exact": run_lse_exact, "lse-laws": run_lse_laws, "grid": run_grid, "dgrid": run_dgrid, "funcrep": run_funcrep, "mapcoord": run_mapcoord, "gridcoord": run_gridcoord, "map": run_map, "call": run_call, "scs": run_scs, "scs-mdl": run_scs_mdl, "argmax": run_argmax, "segargmax": run_segargmax, "reduce": run_reduce}


def run_unit(c):
    try:
        return RUNNERS[c["fn"]](c)
    except Exception as e:  # noqa: BLE001
        return _err(c, c["fn"], e)


def _chunk(cs):
    _worker_init()
    return [run_unit(c) for c in cs]


def run_units(cases, nproc=None, chunk=64):
    nproc = nproc or NPROC
    if not cases:
        return []
    chunks = [cases[i:i + chunk] for i in range(0, len(cases), chunk)]
    if nproc == 1 or len(chunks) == 1:
        return _chunk(cases)
    from .pool import robust_map

    def failed(ch, why):
        return [{"cid": c["cid"], "fn": "error", "op": c["fn"], "cls": "DriverProcessFailure", "msg": why, "input": {}} for c in ch]

    out = []
    for r in robust_map(_chunk, chunks, nproc, failed):
        out.extend(r)
    return out
