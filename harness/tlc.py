"""Running TLC: batched trace validation (one verdict per case) and model checking."""
from __future__ import annotations

import json
import os
import re
import shutil
import subprocess
import tempfile
import time
from concurrent.futures import ThreadPoolExecutor
from pathlib import Path

VERIF = Path(__file__).resolve().parent.parent
SPEC = VERIF / "spec"
JAR = "/opt/veriftools/tla/tla2tools.jar:/opt/veriftools/tla/CommunityModules-deps.jar"
NPROC = int(os.environ.get("VERIF_NPROC", "16"))
TLC_PROCS = int(os.environ.get("VERIF_TLC_PROCS", "12"))


class MachineryError(RuntimeError):
    """TLC failed to produce a verdict (parse error, overflow, crash, timeout)."""


def tlc_cmd(module, cfg=None, *, workers=1, xmx="2g", metadir=None, extra=()):
    # Many small single-worker JVMs run side by side for trace validation: serial GC, two
    # "processors" and a small fingerprint set measured 2-3x faster than the defaults here.
    if workers == 1:
        jvm = ["-XX:+UseSerialGC", "-XX:ActiveProcessorCount=2", "-Xms256m", f"-Xmx{xmx}"]
        tl = ["-fpmem", "0.1"]
    else:
        jvm = ["-XX:+UseParallelGC", f"-Xmx{xmx}"]
        tl = []
    if metadir:      # TLC's own scratch directories (tlc-<n>) go where the metadir goes and are removed with it
        jvm.append(f"-Djava.io.tmpdir={metadir}")
    cmd = ["java", *jvm, "-cp", JAR, "tlc2.TLC", "-workers", str(workers), "-noGenerateSpecTE", *tl]
    if metadir:
        cmd += ["-metadir", str(metadir)]
    cmd += ["-config", cfg or f"{module}.cfg", *extra, f"{module}.tla"]
    return cmd


STATS = re.compile(r"(\d+) states generated, (\d+) distinct states found")


def parse_stats(out):
    m = None
    for m in STATS.finditer(out):
        pass
    if not m:
        return 0, 0
    return int(m.group(1)), int(m.group(2))


def _unescape(s):
    return s.encode("utf-8").decode("unicode_escape").encode("latin-1").decode("utf-8")


def parse_prints(out, tag):
    """All PrintT(<<tag, "json">>) payloads of a TLC run (robust against line wrapping)."""
    res = []
    key = f'<<"{tag}", '
    i = 0
    while True:
        i = out.find(key, i)
        if i < 0:
            break
        j = out.find('"', i + len(key) - 1 + 1)
        # find the closing quote of the string literal (skip escaped quotes)
        k = j + 1
        while True:
            k = out.find('"', k)
            if k < 0:
                raise MachineryError("unterminated TLC string")
            bs = 0
            p = k - 1
            while out[p] == "\\":
                bs += 1
                p -= 1
            if bs % 2 == 0:
                break
            k += 1
        raw = out[j + 1:k].replace("\n", "")
        res.append(json.loads(_unescape(raw)))
        i = k
    return res


def run_tlc(module, *, cfg=None, env=None, workers=1, timeout=1800, extra=(), xmx="2g"):
    """Run TLC on a module of /verif/spec; returns (stdout, generated, distinct)."""
    meta = tempfile.mkdtemp(prefix="tlcmeta-")
    e = dict(os.environ)
    e.update(env or {})
    try:
        p = subprocess.run(tlc_cmd(module, cfg, workers=workers, metadir=meta, extra=extra, xmx=xmx),
                           cwd=SPEC, env=e, capture_output=True, text=True, timeout=timeout, check=False)
    except subprocess.TimeoutExpired as ex:
        raise MachineryError(f"TLC timeout on {module}") from ex
    finally:
        shutil.rmtree(meta, ignore_errors=True)
    out = p.stdout + p.stderr
    gen, dist = parse_stats(out)
    return out, gen, dist, p.returncode


def tlc_errors(out):
    errs = []
    for line in out.splitlines():
        if line.startswith("Error:") or "Exception" in line and "java" in line:
            errs.append(line)
    return errs


def validate_traces(module, cases, *, nproc=None, timeout=3600, extra_env=None, _retry=True):
    """Validate cases (list of dicts, each with a unique 'cid') with a trace specification.

    The cases are split over `nproc` single-worker TLC processes.  Returns
    (verdicts: {cid: record}, stats: {generated, distinct, tlc_runs, wall_s}).
    Every case must get exactly one verdict, otherwise MachineryError.
    """
    nproc = nproc or TLC_PROCS
    if not cases:
        return {}, {"generated": 0, "distinct": 0, "tlc_runs": 0, "wall_s": 0.0}
    k = max(1, min(nproc, len(cases)))
    chunks = [cases[i::k] for i in range(k)]
    tmp = Path(tempfile.mkdtemp(prefix="tlccases-"))
    t0 = time.time()

    def one(i):
        f = tmp / f"cases{i}.json"
        f.write_text(json.dumps(chunks[i]))
        env = {"CASES": str(f)}
        env.update(extra_env or {})
        out, gen, dist, rc = run_tlc(module, env=env, timeout=timeout)
        return out, gen, dist, rc

    try:
        with ThreadPoolExecutor(max_workers=k) as ex:
            results = list(ex.map(one, range(k)))
    finally:
        shutil.rmtree(tmp, ignore_errors=True)
    verdicts = {}
    gen = dist = 0
    failed_chunks = []
    for i, (out, g, d, rc) in enumerate(results):
        gen += g
        dist += d
        for v in parse_prints(out, "VERDICT"):
            if v["cid"] in verdicts:
                raise MachineryError(f"two verdicts for case {v['cid']}")
            verdicts[v["cid"]] = v
        missing = [c for c in chunks[i] if c["cid"] not in verdicts]
        if missing or rc not in (0,):
            failed_chunks.append((missing, out, rc))
    if failed_chunks:
        # A TLC evaluation error (typically 32-bit overflow of the exact rational arithmetic on one case) stops the
        # whole chunk.  Re-run the cases without verdict one by one; a case that fails again on its own is not judged
        # (verdict SKIP tlc-evaluation-error, reported in the evidence).  More than a few of them is a machinery failure.
        if not _retry:
            missing, out, rc = failed_chunks[0]
            dump = VERIF / "out" / "tlc-failure.log"
            dump.parent.mkdir(exist_ok=True)
            dump.write_text(out)
            raise MachineryError(
                f"TLC ({module}) gave no verdict for cases {[c['cid'] for c in missing][:5]} (exit {rc}); "
                f"errors: {tlc_errors(out)[:3]}; full output in {dump}")
        redo = [c for missing, _, _ in failed_chunks for c in missing]
        unjudged = []

        def single(c):
            try:
                v, st1 = validate_traces(module, [c], nproc=1, timeout=timeout, extra_env=extra_env, _retry=False)
                return c, v[c["cid"]], st1, None
            except MachineryError as e:
                return c, None, None, str(e)

        with ThreadPoolExecutor(max_workers=nproc) as ex:
            for c, v, st1, err in ex.map(single, redo):
                if v is not None:
                    verdicts[c["cid"]] = v
                    gen += st1["generated"]
                    dist += st1["distinct"]
                else:
                    unjudged.append((c["cid"], err))
                    verdicts[c["cid"]] = {"cid": c["cid"], "v": ["SKIP", "tlc-evaluation-error"], "exact": False, "detail": err[:300]}
        if len(unjudged) > max(2, len(cases) // 20):
            dump = VERIF / "out" / "tlc-failure.log"
            dump.parent.mkdir(exist_ok=True)
            dump.write_text("\n\n".join(e for _, e in unjudged))
            raise MachineryError(f"TLC ({module}) could not evaluate {len(unjudged)} of {len(cases)} cases: {unjudged[0][1][:400]}")
    return verdicts, {"generated": gen, "distinct": dist, "tlc_runs": k, "wall_s": round(time.time() - t0, 2)}


def model_check(module, *, cfg=None, workers=None, timeout=3600, env=None, extra=()):
    """Run an MC_* configuration; returns dict(ok, generated, distinct, out)."""
    out, gen, dist, rc = run_tlc(module, cfg=cfg, workers=workers or NPROC, timeout=timeout, env=env,
                                 extra=extra, xmx="8g")
    ok = rc == 0 and "No error has been found" in out
    return {"ok": ok, "generated": gen, "distinct": dist, "out": out, "rc": rc}
