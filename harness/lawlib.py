"""Shared part of the checks C10 / C11: pairs -> driver -> TraceLaws -> verdicts."""
from __future__ import annotations

from collections import Counter

from . import laws, tlc
from .core import add_violation, digest
from .mdl import q
from .pipeline import tol_of


def mk_pair(cid, law, m1, m2, *, rename=None, pairs=None, a=1, b=0, beta=None, check_spec=True, flat=False, tol=None, label=""):
    from fractions import Fraction as F

    rel = {"rename": rename or laws.identity_rename(m1), "pairs": pairs if pairs is not None else laws.all_pairs(m1["T"]),
           "a": q(F(a)), "b": q(F(b)), "beta": beta if beta is not None else m1["params"]["beta"]}
    t = tol or tol_of(m1)
    if (m2.get("meta") or {}).get("inexact"):
        t = tol_of(m2)
    return {"cid": cid, "law": law, "m1": m1, "m2": m2, "rel": rel, "check_spec": bool(check_spec and not flat), "flat": bool(flat),
            "tol": t, "jit": True, "label": label}


def run_pairs(ctx, res, specs, *, nontrivial):
    done = laws.run_pairs(specs)
    verdicts, st = tlc.validate_traces("TraceLaws", done)
    n_ok = n_skip = 0
    lawsc, clauses = Counter(), Counter()
    seen, nontriv = set(), set()
    compared = 0
    for spec, c in zip(specs, done, strict=True):
        v = verdicts[c["cid"]]
        h = digest({"m1": spec["m1"].get("vars"), "f1": spec["m1"].get("funcs"), "p1": spec["m1"].get("params"), "law": spec["law"],
                    "f2": spec["m2"].get("funcs"), "v2": spec["m2"].get("vars"), "T2": spec["m2"]["T"], "rel": spec["rel"]})
        seen.add(h)
        if nontrivial(spec):
            nontriv.add(h)
        lawsc[spec["law"]] += 1
        compared += v.get("compared", 0)
        if v["v"][0] == "ok":
            n_ok += 1
        elif v["v"][0] == "SKIP":
            n_skip += 1
        else:
            if v["v"][1] == "SPEC-LAW":
                raise tlc.MachineryError(f"the law {spec['law']} does not hold in the specification itself for case {c['cid']}: "
                                         f"{v['v'][2][:300]} (generator or specification error)")
            clauses[f"{spec['law']}: {v['v'][1]}"] += 1
            add_violation(ctx, res, v["v"][1], {"kind": "law-pair", "property": ctx.prop, "spec": spec, "case": c, "verdict": v},
                          f"pair {c['cid']} ({spec['law']}; {spec.get('label', '')}): {v['v'][2][:300]}")
    res.merge_cov(evaluations=len(specs), traces_validated_against_impl=n_ok, out_of_scope=n_skip, states=st["distinct"],
                  transitions=st["generated"], tlc_runs=st["tlc_runs"], laws=dict(lawsc), clauses=dict(clauses), entries_compared=compared)
    res.coverage.setdefault("_seen", set()).update(seen)
    res.coverage.setdefault("_nontriv", set()).update(nontriv)
    if "samples" not in res.coverage:
        s = specs[0]
        res.coverage["samples"] = [{"law": s["law"], "label": s.get("label", ""), "rel": s["rel"], "T1": s["m1"]["T"], "T2": s["m2"]["T"],
                                    "funcs1": [[f["name"], f["kind"], f["args"]] for f in s["m1"].get("funcs", [])],
                                    "funcs2": [[f["name"], f["kind"], f["args"]] for f in s["m2"].get("funcs", [])]}]
    return verdicts
