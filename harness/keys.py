"""Drivers for C04: recorded PRNG keys (hooks) and aggregated transition counts of large simulations."""
from __future__ import annotations

from collections import Counter
from fractions import Fraction as F

from . import mdl as MDL
from .drive import Session, _init_arrays


def kstr(k):
    import numpy as np

    a = np.asarray(k).ravel()
    return ":".join(str(int(x)) for x in a)


def run_keys_case(spec):
    """Run solve_and_simulate with the hooks on (eager: also the per-agent draw keys) and turn the
    recorded events into a trace for TraceKeys."""
    import jax

    import lcm._verif as V

    m = spec["mdl"]
    out = {"cid": spec["cid"], "T": m["T"], "seed": spec["seed"], "eager": bool(spec["eager"]), "events": [], "root": "",
           "error": False, "cls": "", "msg": ""}
    try:
        sess = Session(m)
        f = sess.get("solve_and_simulate", not spec["eager"])
        p = MDL.params(m)
        init = {k: [F(x[0], x[1]) for x in v] for k, v in spec["init"].items()}
        arr = _init_arrays(m, init)
        V.drain()
        if spec["eager"]:
            with jax.disable_jit():
                f(p, initial_states=arr, seed=spec["seed"])
        else:
            f(p, initial_states=arr, seed=spec["seed"])
        evs = V.drain()
        out["root"] = kstr(jax.random.PRNGKey(spec["seed"]))
    except Exception as e:  # noqa: BLE001
        out.update(error=True, cls=type(e).__name__, msg=str(e)[:200])
        return out
    events = []
    cur = None
    for e in evs:
        if e["e"] == "sim_keys":
            if cur is not None:
                events.append({"e": "end_period"})
            names = list(e["sim_keys"])
            cur = {"names": names, "keys": [kstr(e["sim_keys"][n]) for n in names], "drawn": set()}
            events.append({"e": "sim_keys", "period": int(e["period"]), "key_in": kstr(e["key_in"]), "key_out": kstr(e["key_out"]),
                           "var_keys": cur["keys"], "var_names": names})
        elif e["e"] == "draw" and cur is not None:
            k = kstr(e["key"])
            if k in cur["keys"] and cur["keys"].index(k) not in cur["drawn"]:
                j = cur["keys"].index(k)
            else:
                j = next((i for i in range(len(cur["keys"])) if i not in cur["drawn"]), 0)
            cur["drawn"].add(j)
            events.append({"e": "draw", "var": j + 1, "key": k, "agent_keys": [kstr(x) for x in e["agent_keys"]]})
    if cur is not None:
        events.append({"e": "end_period"})
    out["events"] = events
    return out


# ----------------------------------------------------------------------------- statistics
def run_stats_case(spec):
    """Simulate many agents; aggregate next-label counts per transition row (and per conditioning draw)."""
    import numpy as np

    m = spec["mdl"]
    out = {"cid": spec["cid"], "mdl": {k: v for k, v in m.items() if k != "meta"}, "cells": [], "error": False, "cls": "", "msg": "",
           "N": spec["N"], "seed": spec["seed"]}
    try:
        sess = Session(m)
        f = sess.get("solve_and_simulate", True)
        init = {k: [F(x[0], x[1]) for x in v] for k, v in spec["init"].items()}
        df = f(MDL.params(m), initial_states=_init_arrays(m, init), seed=spec["seed"])
    except Exception as e:  # noqa: BLE001
        out.update(error=True, cls=type(e).__name__, msg=str(e)[:200])
        return out
    T, N = m["T"], spec["N"]
    col = {c: df[c].to_numpy().reshape(T, N) for c in df.columns}
    stoch = [f_ for f_ in m["funcs"] if f_["kind"] == "stoch"]
    nlab = {f_["state"]: MDL.var_by_name(m, f_["state"])["n"] for f_ in stoch}
    cells = []

    def dep_values(f_, t):
        return [np.full(N, t) if d == "_period" else np.asarray(col[d][t]).astype(int) for d in f_["args"]]

    def add_cells(f_, t, extra, cond, label):
        st = f_["state"]
        deps = dep_values(f_, t)
        nxt = np.asarray(col[st][t + 1]).astype(int)
        keys = list(zip(*deps, *( [extra] if extra is not None else [] ))) if (deps or extra is not None) else [()] * N
        groups = {}
        for i, k in enumerate(keys):
            groups.setdefault(k, []).append(i)
        for k, idx in groups.items():
            n = len(idx)
            if n < spec.get("min_cell", 40) or n > 10000:
                continue
            cnt = Counter(int(x) for x in nxt[idx])
            env = {d: [int(v), 1] for d, v in zip(f_["args"], k)}
            cells.append({"st": st, "env": env, "n": n, "counts": [cnt.get(lab, 0) for lab in range(nlab[st])], "cond": cond,
                          "given": label(k[len(f_["args"]):]) if extra is not None else "", "period": t})

    for t in range(T - 1):
        for f_ in stoch:
            st = f_["state"]
            add_cells(f_, t, None, "none", None)
            # the neighbouring agent's draw of the same variable
            nb = np.asarray(col[st][t + 1]).astype(int)[np.arange(N) ^ 1] if N % 2 == 0 else None
            if nb is not None:
                add_cells(f_, t, nb, "across-agents", lambda k: f"neighbour drew {k[0]}")
            # the same agent's previous draw of the same variable
            if t >= 1 and st not in f_["args"]:
                add_cells(f_, t, np.asarray(col[st][t]).astype(int), "across-periods", lambda k: f"previous draw {k[0]}")
            # another stochastic variable's draw in the same period
            for g_ in stoch:
                if g_["state"] != st:
                    add_cells(f_, t, np.asarray(col[g_["state"]][t + 1]).astype(int), "across-variables",
                              lambda k, s2=g_["state"]: f"{s2} drew {k[0]}")
    out["cells"] = cells[: spec.get("max_cells", 400)]
    return out


def _chunk(args):
    from .drive import _worker_init

    _worker_init()
    kind, specs = args
    return [(run_keys_case if kind == "keys" else run_stats_case)(s) for s in specs]


def run_many(kind, specs, nproc=16, chunk=2):
    from concurrent.futures import ProcessPoolExecutor
    from multiprocessing import get_context

    if not specs:
        return []
    chunks = [(kind, specs[i:i + chunk]) for i in range(0, len(specs), chunk)]
    from .pool import robust_map

    def failed(ch, why):
        return [{"cid": s["cid"], "error": True, "cls": "DriverProcessFailure", "msg": why, "events": [], "cells": [], "T": s["mdl"]["T"],
                 "seed": s["seed"], "eager": bool(s.get("eager")), "root": "", "N": s.get("N", 0), "mdl": {}} for s in ch[1]]

    out = []
    for r in robust_map(_chunk, chunks, nproc, failed):
        out.extend(r)
    return out
