"""./check <property> [--tier quick|thorough] [--replay path]"""
from __future__ import annotations

import argparse
import importlib
import json
import os
import sys
import traceback

from .core import Ctx, env_seed, finish
from .tlc import MachineryError


def main(argv=None):
    ap = argparse.ArgumentParser()
    ap.add_argument("prop")
    ap.add_argument("--tier", default=os.environ.get("VERIF_TIER", "quick"), choices=["quick", "thorough"])
    ap.add_argument("--replay")
    a = ap.parse_args(argv)
    prop = a.prop.upper()
    ctx = Ctx(prop=prop, tier=a.tier, seed=env_seed())
    try:
        mod = importlib.import_module(f"harness.checks.{prop.lower()}")
        if a.replay:
            return replay(mod, ctx, a.replay)
        res = mod.run(ctx)
        return finish(ctx, res, getattr(mod, "LEVEL", "model_checking"))
    except MachineryError as e:
        print(f"MACHINERY-ERROR {prop}: {e}", file=sys.stderr)
        return 2
    except Exception:  # noqa: BLE001
        traceback.print_exc()
        print(f"MACHINERY-ERROR {prop}: unexpected exception", file=sys.stderr)
        return 2


def replay(mod, ctx, path):
    payload = json.loads(open(path).read())
    if hasattr(mod, "replay"):
        return mod.replay(ctx, path)
    if payload.get("kind") == "pipeline":
        from .pipeline import replay_pipeline

        v, _ = replay_pipeline(path)
        print("verdict:", json.dumps(v["v"]))
        if v["v"][0] == "FAIL":
            print(f"VIOLATION property={ctx.prop} replay={path}")
            return 1
        return 0
    print("unknown replay kind", file=sys.stderr)
    return 2


if __name__ == "__main__":
    sys.exit(main())
