"""Process pool that survives a crashing or hanging worker: every chunk gets a result or `on_fail(chunk, reason)`."""
from __future__ import annotations

import os
from concurrent.futures import ProcessPoolExecutor
from concurrent.futures import TimeoutError as FutTimeout
from concurrent.futures.process import BrokenProcessPool
from multiprocessing import get_context

CHUNK_TIMEOUT = int(os.environ.get("VERIF_CHUNK_TIMEOUT", "1500"))


def robust_map(fn, chunks, nproc, on_fail, timeout=None, initializer=None):
    """Apply fn to every chunk in a spawned process pool; results in chunk order.

    A chunk whose worker dies (segfault, OOM kill) or exceeds `timeout` seconds is retried once alone in a
    fresh pool; if it fails again its result is on_fail(chunk, reason)."""
    timeout = timeout or CHUNK_TIMEOUT
    results = [None] * len(chunks)
    pending = list(range(len(chunks)))
    attempt = 0
    while pending and attempt < 2:
        attempt += 1
        workers = max(1, min(nproc, len(pending))) if attempt == 1 else 1
        failed = []
        ex = ProcessPoolExecutor(max_workers=workers, mp_context=get_context("spawn"), initializer=initializer)
        try:
            futs = {i: ex.submit(fn, chunks[i]) for i in pending}
            for i in pending:
                try:
                    results[i] = futs[i].result(timeout=timeout if attempt == 1 else timeout)
                except FutTimeout:
                    failed.append((i, "timeout"))
                except BrokenProcessPool:
                    failed.append((i, "worker process died"))
                except Exception as e:  # noqa: BLE001
                    failed.append((i, f"{type(e).__name__}: {e}"))
        finally:
            procs = list((getattr(ex, "_processes", None) or {}).values())
            if failed:       # a hung worker would keep the pool alive for ever: kill what is left
                ex.shutdown(wait=False, cancel_futures=True)
                for p in procs:
                    try:
                        p.kill()
                    except Exception:  # noqa: BLE001, S110
                        pass
            else:
                ex.shutdown(wait=True)
        if attempt == 2 or not failed:
            for i, why in failed:
                results[i] = on_fail(chunks[i], why)
            pending = []
        else:
            pending = [i for i, _ in failed]
            reasons = dict(failed)
    for i in pending:
        results[i] = on_fail(chunks[i], reasons.get(i, "failed"))
    return results
