"""Common part of the checks that validate recorded pipeline executions with TracePipeline."""
from __future__ import annotations

import json
from collections import Counter

from . import drive, tlc
from .core import Ctx, Result, add_violation, digest

# exact (dyadic) families: every float32 operation of lcm is exact there, so the tolerance only has to absorb a few
# roundings should a model leave the exact regime (2^-24 relative each); 2^-18 (1 + |v|) leaves room for 64 of them
TOL_EXACT = [1, 1 << 18]
TOL_INEXACT = [1, 128]


def tol_of(m):
    if (m.get("meta") or {}).get("tol"):
        return list(m["meta"]["tol"])
    return TOL_INEXACT if (m.get("meta") or {}).get("inexact") else TOL_EXACT


def mk_spec(cid, m, groups, plan, *, reltol=None, label="", x64=False):
    """x64: the case is run with jax_enable_x64 (what lcm's own test-suite does); default float32."""
    t = tol_of(m)
    return {"x64": bool(x64 or (m.get("meta") or {}).get("x64")), "cid": cid, "mdl": m, "groups": list(groups), "tol": t, "reltol": reltol if reltol is not None else t,
            "plan": plan, "label": label, "diag_ccv": any(s.get("record_ccv") for s in plan),
            "diag_sim": any(s.get("record_steps") for s in plan)}


def qinit(init):
    from .mdl import q

    return {k: [q(x) for x in v] for k, v in init.items()}


def embed_positions(rng, k, n_full):
    """Positions (ascending, position j congruent to j mod k) at which k agents are kept inside a batch of n_full agents that
    tiles them: the first third at the start, the middle third somewhere inside, the last third in the very last block."""
    blocks = n_full // k
    mid = rng.randrange(1, max(2, blocks - 1))
    return [j + k * (0 if j < k // 3 else (mid if j < 2 * k // 3 else blocks - 1)) for j in range(k)]


# sizes of the large batches: rows per period / rows of the whole panel beyond 2^14 and 2^16, not multiples of them
LARGE_N = [20011, 70001]


def sample_of(spec):
    m = spec["mdl"]
    return {
        "label": spec.get("label", ""),
        "T": m["T"],
        "vars": [{k: v[k] for k in ("name", "role", "kind", "n")} for v in m["vars"]],
        "funcs": [{"name": f["name"], "kind": f["kind"], "args": f["args"]} for f in m["funcs"]],
        "beta": m["params"]["beta"],
        "plan": [{k: v for k, v in s.items() if k not in ("arbitrary",)} for s in spec["plan"]],
    }


def run_pipeline(ctx: Ctx, res: Result, specs, *, nontrivial=None, trace_module="TracePipeline"):
    """Drive the real code on every spec, validate the traces with TLC, book the verdicts."""
    if not specs:
        return {}
    cases = drive.run_cases(specs)
    verdicts, st = tlc.validate_traces(trace_module, cases)
    n_ok = n_skip = n_fail = 0
    exact = 0
    rows = skipped_rows = 0
    clauses = Counter()
    strata = Counter()
    labels = Counter()
    seen = set()
    nontriv = set()
    for spec, case in zip(specs, cases, strict=True):
        v = verdicts[case["cid"]]
        status = v["v"][0]
        h = digest({"mdl": case["mdl"], "plan": spec["plan"]})
        seen.add(h)
        if nontrivial is None or nontrivial(spec):
            nontriv.add(h)
        for k, val in ((spec["mdl"].get("meta") or {}).get("feat") or {}).items():
            if val is True:
                strata[k] += 1
        labels[spec.get("label", "")] += 1
        for dname in v.get("diag", []) or []:
            clauses["DIAG:" + dname] += 1
        rows += v.get("nrows", 0)
        skipped_rows += v.get("nskip", 0)
        if status == "ok":
            n_ok += 1
            exact += 1 if v.get("exact") else 0
        elif status == "SKIP":
            n_skip += 1
            clauses["SKIP:" + v["v"][1]] += 1
        else:
            n_fail += 1
            clause = v["v"][1]
            clauses[clause] += 1
            add_violation(ctx, res, clause, {"kind": "pipeline", "property": ctx.prop, "spec": spec, "case": case,
                                             "verdict": v, "trace_module": trace_module},
                          f"case {case['cid']} ({spec.get('label', '')}): {v['v'][2]}")
    res.merge_cov(
        evaluations=len(specs),
        traces_validated_against_impl=n_ok,
        out_of_scope=n_skip,
        failed=n_fail,
        exact_agreement=exact,
        rows_checked=rows,
        rows_out_of_scope=skipped_rows,
        states=st["distinct"],
        transitions=st["generated"],
        tlc_runs=st["tlc_runs"],
        clauses=dict(clauses),
        strata=dict(strata),
        case_kinds=dict(labels),
    )
    res.coverage.setdefault("_seen", set()).update(seen)
    res.coverage.setdefault("_nontriv", set()).update(nontriv)
    res.coverage.setdefault("samples", [])
    if len(res.coverage["samples"]) < 3:
        res.coverage["samples"].extend(sample_of(s) for s in specs[:2])
    return verdicts


def finalize_cov(res: Result, rule: str):
    seen = res.coverage.pop("_seen", set())
    nontriv = res.coverage.pop("_nontriv", set())
    res.coverage["distinct_cases"] = len(seen)
    res.coverage["distinct_nontrivial"] = len(nontriv)
    res.coverage["rule"] = rule


def replay_pipeline(path):
    """Re-run a stored pipeline case against the current tree; returns the new verdict record."""
    payload = json.loads(open(path).read())
    spec = payload["spec"]
    case = drive.run_cases([spec], nproc=1)[0]
    verdicts, _ = tlc.validate_traces(payload.get("trace_module", "TracePipeline"), [case], nproc=1)
    return verdicts[case["cid"]], case
