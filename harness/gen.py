"""Seeded random generator of model descriptions (MDL), stratified by feature.

A model is drawn from one family ("consumption/saving with discrete add-ons") whose
features are switched by a profile; the features are the strata F1..F24 of DESIGN.md §6.
All numbers are small integers / dyadics so that every float32 operation lcm performs on
these models is exact (DESIGN.md §5); `family: inexact` models (log grids, beta = 9/10,
thirds in utility tables) are judged with a tolerance.

Nothing here computes a solution; the generator only knows which discrete states are
admitted by the filters it wrote (needed to draw legal initial states and to keep
transitions inside the space, which is a precondition of C01).
"""
from __future__ import annotations

import random
from fractions import Fraction as F

from .mdl import add, const, mkfunc, mkvar, mul, q, var  # noqa: F401

DEFAULT = {
    "T": [1, 2, 3],
    "p_h": 0.6,            # discrete state h
    "p_h_stoch": 0.6,      # ... with a stochastic transition
    "p_e": 0.15,           # second stochastic discrete state e (3 labels)
    "p_r": 0.6,            # filter-restricted discrete state r (+ filtered choice a)
    "p_per_filter": 0.5,   # filter depends on the period (admitted states vary)
    "p_q": 0.3,            # second filter-restricted state q
    "p_b_in_filter": 0.3,  # the filter also restricts the discrete choice b
    "p_reduction_aux": 0.2,   # an auxiliary function written as jnp.sum(jnp.array([...])), used by utility only
    "p_lower_bound": 0.1,      # a constraint kmin <= c cutting off the LOW end of the consumption grid (ties with excluded points)
    "p_undefined_outside": 0.12,  # utility is NaN / +inf wherever a (parameter-free) filter or constraint fails: never to be looked at
    "p_two_params": 0.35,      # utility has a second own parameter g (signature order of parameters and variables is shuffled)
    "p_next_in_constraint": 0.15,  # a constraint on the NEXT value of w: nw_constraint(next_w, kn) = kn <= next_w
    "p_a_tie": 0.12,           # the restricted choice a enters no payoff: exact ties between its labels wherever transitions do not separate them
    "p_kwonly": 0.2,           # the own parameters of utility (and of next_w) are declared keyword-only: def utility(c, w, *, k)
    "p_default_params": 0.25,  # own parameters declared with a default value (def utility(c, w, k=3.0)) that differs from the value in
                               # params: the value stored under the function's name is what counts (decided on a random stream
                               # of its own, derived from the model, so that the main stream of the generator is unchanged)
    "p_beta_outside": 0.12,    # beta outside [0, 1] (5/4, 3/2, 2, -1/2): legal in a finite-horizon problem; the continuation value is
                               # weighted by exactly the number in params (own random stream, see p_default_params)
    "p_aux_chain": 0.25,       # an auxiliary function of an auxiliary function: next_w takes net(inc, kn2) = inc - kn2 instead of inc
                               # (two levels in the function DAG, each level with an own parameter; own random stream)
    "pad_states": 0,           # number of extra discrete states x0, x1, ... with one (sometimes two) labels and identity transitions:
                               # models with many variables (17+) at the cost of few cells
    "p_int_arith": 0.3,        # a payoff term built by INTEGER arithmetic on the restricted variables that goes negative: c * (a - r - 1)
    "p_alias": 0.25,           # the function object of `inc` is registered a second time as `inc2` with other parameter values
    "p_unnormalised": 0.0,     # transition rows scaled by a common factor < 1 (weights that fold in a survival probability)
    "p_next_reads_draw": 0.0,   # (not used by any check: lcm.solve itself mis-handles this class, see DESIGN 11.5) next_w reads the realised next value of the stochastic state h: next_w(..., next_h)
    "p_near_tie": 0.15,        # large utility level + tiny dyadic premia on the discrete choices: near-ties (relative 1e-5)
    "p_dead_label": 0.0,       # (models without continuous state) the last label of h admits no choice: value -inf, reachable
    "p_state_only_filter": 0.15,  # the filter restricts states only: no restricted choice, every discrete choice unrestricted
    "p_choice_filter": 0.25,  # an additional filter over the restricted choice a (and the period) only
    "p_state_filter": 0.2, # additional filter on the state r alone
    "p_b": 0.5,            # unfiltered discrete choice b
    "p_a": 0.8,            # discrete choice a (filtered if r is present)
    "p_c": 0.9,            # continuous choice c
    "p_d": 0.3,            # second continuous choice d
    "p_z": 0.2,            # second continuous state z
    "p_w": 0.95,           # continuous state w
    "p_log": 0.0,          # w on a log grid (inexact family)
    "p_period_util": 0.6,
    "p_period_aux": 0.5,
    "p_period_next": 0.4,
    "p_quadratic": 0.5,
    "p_nobind": 0.1,       # drop the budget constraint
    "p_dense_constraint": 0.3,
    "p_infeasible_last": 0.0,
    "p_r_only_filter": 0.25,   # r enters no function but the filter (and transitions)
    "p_unused_choice": 0.15,
    "p_param_collision": 0.3,  # the parameter name k also in the constraint and in next_w, with other values
    "p_param_only_aux": 0.2,   # an auxiliary function of parameters only
    "no_period": False,        # no function may depend on the period (horizon-shift law)
    "all_admitted": False,     # filters exclude no state   # b enters no function at all / only a constraint
    "betas": [F(1, 2), F(3, 4), F(1), F(0), F(1, 4)],
    "inexact": False,
    "shuffle": True,
    "max_cells": 1500,     # bound on |states| * |choices| per period (TLC cost)
}


def _profile(over):
    p = dict(DEFAULT)
    p.update(over or {})
    return p


def _tab(rng, shape, lo=-3, hi=3, fn=None):
    """Nested table of given shape; entries [n,d] (or booleans when fn returns bool)."""
    def rec(idx, dims):
        if not dims:
            v = fn(idx) if fn else rng.randint(lo, hi)
            return v if isinstance(v, bool) else q(v)
        return [rec(idx + (i,), dims[1:]) for i in range(dims[0])]
    return rec((), list(shape))


ROWS2 = [[F(1), F(0)], [F(0), F(1)], [F(1, 2), F(1, 2)], [F(1, 4), F(3, 4)], [F(3, 4), F(1, 4)]]
ROWS3 = [[F(1), F(0), F(0)], [F(0), F(1), F(0)], [F(0), F(0), F(1)], [F(1, 2), F(1, 2), F(0)],
         [F(0), F(1, 4), F(3, 4)], [F(1, 4), F(1, 4), F(1, 2)], [F(1, 2), F(0), F(1, 2)]]


def rand_model(rng: random.Random, over=None):  # noqa: C901, PLR0912, PLR0915
    P = _profile(over)
    for _ in range(5000):     # (profiles with two stochastic states fit the size bound in 2 % of the attempts)
        m = _rand_model_once(rng, P)
        if m is not None:
            if rng.random() < P["p_undefined_outside"]:
                undefined_outside(rng, m)
            r2 = random.Random(repr(sorted((f["name"], tuple(f["args"])) for f in m["funcs"])) + repr(m["T"]))
            if r2.random() < P["p_default_params"]:
                default_params(r2, m)
            r4 = random.Random("chain" + repr(sorted((f["name"], tuple(f["args"])) for f in m["funcs"])) + repr(m["T"]))
            if r4.random() < P["p_aux_chain"]:
                aux_chain(r4, m)
            r3 = random.Random("beta" + repr(sorted((f["name"], tuple(f["args"])) for f in m["funcs"])) + repr(m["T"]))
            if (r3.random() < P["p_beta_outside"] and not P["inexact"] and 2 <= m["T"] <= 4
                    and not m["meta"]["feat"].get("near_ties")):      # (near-tie levels times 4^T would leave TLC's integers)
                m["params"]["beta"] = q(r3.choice([F(5, 4), F(3, 2), F(2), F(-1, 2)]))
                m.setdefault("meta", {}).setdefault("feat", {})["beta_outside_unit_interval"] = True
            return m
    raise RuntimeError("generator could not satisfy the size bound")


def _rand_model_once(rng, P):  # noqa: C901, PLR0912, PLR0915
    T = rng.choice(P["T"])
    feat = {}
    if P["no_period"]:
        P = dict(P, p_per_filter=0.0, p_period_util=0.0, p_period_aux=0.0, p_period_next=0.0)
    has = lambda k: rng.random() < P[k]  # noqa: E731
    has_w = has("p_w")
    has_z = has("p_z")
    has_h = has("p_h")
    h_stoch = has_h and has("p_h_stoch")
    has_e = has("p_e")
    has_r = has("p_r")
    has_q = has_r and has("p_q")
    has_a = has("p_a") or has_r
    has_b = has("p_b")
    has_c = has("p_c") and has_w
    has_d = has("p_d") and has_w
    log_w = has_w and has("p_log")
    if not (has_w or has_z or has_h or has_e or has_r):
        has_h = True
    if not (has_a or has_b or has_c or has_d):
        has_a = True

    # ------------------------------------------------------------------ variables
    nw = rng.choice([3, 5, 3, 5, 2])          # 2: a single cell, every evaluation point is in or beyond the boundary cell
    sw = rng.choice([1, 2])
    nc = rng.choice([2, 3, 5])
    sc = rng.choice([F(1), F(1, 2)]) if sw == 1 else F(1)
    na = rng.choice([2, 3])
    nb = rng.choice([2, 3])
    nr = rng.choice([2, 3])
    nh, ne = rng.choice([2, 2, 3, 4]), 3
    sz = P.get("sizes") or {}
    nw, nc, na, nb, nr, nh, ne = (sz.get("w", nw), sz.get("c", nc), sz.get("a", na), sz.get("b", nb),
                                  sz.get("r", nr), sz.get("h", nh), sz.get("e", ne))
    vars_ = []
    if has_h:
        vars_.append(mkvar("h", "state", "disc", nh))
    if has_w:
        if log_w:
            first = F(rng.choice(P.get("log_first") or [F(1), F(2), F(1, 2)]))
            nodes = [first * 2 ** k for k in range(nw)]
            log_lo, log_hi = nodes[0], nodes[-1]
            vars_.append(mkvar("w", "state", "log", nw, nodes=nodes))
        else:
            vars_.append(mkvar("w", "state", "lin", nw, 0, sw * (nw - 1)))
    if has_r:
        vars_.append(mkvar("r", "state", "disc", nr))
    if has_q:
        vars_.append(mkvar("q", "state", "disc", 2))
    if has_z:
        nz = sz.get("z", 3)
        vars_.append(mkvar("z", "state", "lin", nz, -1, {3: 1, 5: 3, 2: 0}[nz]))
    if has_e:
        vars_.append(mkvar("e", "state", "disc", ne))
    if has_b:
        vars_.append(mkvar("b", "choice", "disc", nb))
    if has_a:
        vars_.append(mkvar("a", "choice", "disc", na))
    if has_c:
        # c_stop: a fine consumption grid inside the range of w (long grids whose upper part is feasible for rich agents)
        vars_.append(mkvar("c", "choice", "lin", nc, 0, P["c_stop"] if P.get("c_stop") else sc * (nc - 1)))
    if has_d:
        vars_.append(mkvar("d", "choice", "lin", sz.get("d", 3), 0, 1))
    pads = []
    for j in range(int(P.get("pad_states") or 0)):
        role = "choice" if j % 4 == 3 else "state"
        vars_.append(mkvar(f"x{j}", role, "disc", rng.choice([1, 1, 1, 2])))
        pads.append(vars_[-1])
    ns = 1
    ncx = 1
    for v in vars_:
        if v["role"] == "state":
            ns *= v["n"]
        else:
            ncx *= v["n"]
    nlab = (nh if h_stoch else 1) * (ne if has_e else 1)
    ncorner = (2 if has_w else 1) * (2 if has_z else 1)
    if has_z and sz.get("z", 3) > 3:
        ns = ns  # (already counted through vars_)
    if ns * ncx * nlab * ncorner > P["max_cells"]:
        return None

    funcs = []
    params = {"beta": q(rng.choice(P["betas"]))}
    if P["inexact"]:
        params["beta"] = q(rng.choice([F(9, 10), F(19, 20), F(2, 3)]))
    ci = lambda lo=-3, hi=3: const(rng.randint(lo, hi))  # noqa: E731

    # ------------------------------------------------------------------ filters over (r[, q], a[, b])
    admitted = None
    if has_r:
        import itertools

        per_filter = T > 1 and has("p_per_filter")
        feat["F6"] = True
        feat["F15"] = per_filter
        fstates = ["r"] + (["q"] if has_q else [])
        fchoices = ["a"] + (["b"] if (has_b and has("p_b_in_filter")) else [])
        if has("p_state_only_filter"):
            fchoices = []
            feat["state_only_filter"] = True
        feat["two_restricted_states"] = has_q
        feat["two_restricted_choices"] = len(fchoices) == 2
        size = {"r": nr, "q": 2, "a": na, "b": nb}
        scombos = list(itertools.product(*[range(size[n]) for n in fstates]))
        ccombos = list(itertools.product(*[range(size[n]) for n in fchoices]))
        admitted = []      # per period: admitted combinations of the restricted states (tuples in the order of fstates)
        passing = []       # per period: set of (state combo, choice combo) that pass ALL filters
        choice_filter = na >= 2 and bool(fchoices) and has("p_choice_filter")
        ok_a, loose = [], []   # per period: values of a the choice-only filter admits; what m_filter alone lets pass
        for t in range(T):
            if t == 0 or per_filter:
                oka = sorted(rng.sample(range(na), rng.randint(1, na - 1))) if choice_filter else list(range(na))
                cc_ok = [cc for cc in ccombos if not cc or cc[0] in oka]
                while True:
                    adm = [sc for sc in scombos if rng.random() < 0.7 or P["all_admitted"]]
                    if adm:
                        break
                ps = {(sc, cc) for sc in adm for cc in cc_ok if rng.random() < 0.6}
                for sc in adm:
                    if not any((sc, cc) in ps for cc in cc_ok):
                        ps.add((sc, rng.choice(cc_ok)))
                # m_filter alone also lets some combinations pass that the choice-only filter removes
                lo = set(ps) | {(sc, cc) for sc in adm for cc in ccombos if cc and cc[0] not in oka and rng.random() < 0.7}
            admitted.append(adm)
            passing.append(ps)
            ok_a.append(oka)
            loose.append(lo)
        fvars = fstates + fchoices
        dims = [size[n] for n in fvars]
        ns_ = len(fstates)
        mask_t = lambda t: _tab(rng, dims, fn=lambda idx: (tuple(idx[:ns_]), tuple(idx[ns_:])) in loose[t])  # noqa: E731
        if choice_filter:
            feat["choice_only_filter"] = True
            if per_filter:
                funcs.append(mkfunc("c_filter", "filter", _shuf(rng, ["a", "_period"], P),
                                    ["tab", ["_period", "a"], [[x in ok_a[t] for x in range(na)] for t in range(T)]]))
            else:
                funcs.append(mkfunc("c_filter", "filter", ["a"], ["tab", ["a"], [x in ok_a[0] for x in range(na)]]))
            params["c_filter"] = {}
        if per_filter:
            funcs.append(mkfunc("m_filter", "filter", _shuf(rng, [*fvars, "_period"], P),
                                ["tab", ["_period", *fvars], [mask_t(t) for t in range(T)]]))
        else:
            funcs.append(mkfunc("m_filter", "filter", _shuf(rng, fvars, P), ["tab", fvars, mask_t(0)]))
        params["m_filter"] = {}
        if has("p_state_filter"):
            # a redundant filter on the state r alone (true on every admitted value of r)
            keep = sorted({sc[0] for adm in admitted for sc in adm})
            funcs.append(mkfunc("s_filter", "filter", ["r"], ["tab", ["r"], [r in keep for r in range(nr)]]))
            params["s_filter"] = {}
        # transitions of the restricted states: tables into the admitted combinations of the next period
        period_next = per_filter or has("p_period_next")
        tgt = {}
        for t in range(T):
            for idx in itertools.product(*[range(d) for d in dims]):
                tgt[(t, idx)] = rng.choice(admitted[min(t + 1, T - 1)] if period_next else admitted[0])
        for k, st in enumerate(fstates):
            if period_next:
                tab = [_tab(rng, dims, fn=lambda idx, t=t, k=k: tgt[(t, tuple(idx))][k]) for t in range(T)]
                funcs.append(mkfunc(f"next_{st}", "next", _shuf(rng, [*fvars, "_period"], P), ["tab", ["_period", *fvars], tab]))
                feat["F14"] = True
            else:
                funcs.append(mkfunc(f"next_{st}", "next", _shuf(rng, fvars, P),
                                    ["tab", fvars, _tab(rng, dims, fn=lambda idx, k=k: tgt[(0, tuple(idx))][k])]))
            params[f"next_{st}"] = {}

    # ------------------------------------------------------------------ utility
    uargs = []
    terms = []
    if has_c:
        uc = rng.randint(1, 3)
        if has("p_quadratic"):
            terms.append(mul(var("c"), ["sub", const(uc + 1), var("c")]))
        else:
            terms.append(mul(const(uc), var("c")))
        uargs.append("c")
    if has_w:
        terms.append(mul(var("w"), var("k")))
        uargs += ["w", "k"]
    if has_z:
        terms.append(mul(ci(1, 3), var("z")))
        uargs.append("z")
    if has_d:
        terms.append(mul(ci(-2, 2), mul(var("d"), var("w"))))
        uargs.append("d")
    disc = [v for v in vars_ if v["kind"] == "disc" and v not in pads]
    disc_all = list(disc)
    near_tie = False
    if disc:  # noqa: SIM102
        # one table over all discrete variables: asymmetric, separates every axis
        drop = set()
        if has_r and has("p_r_only_filter"):
            drop.add("r")
            feat["r_only_filter"] = True
        if has_b and has("p_unused_choice"):
            drop.add("b")
            feat["b_not_in_utility"] = True
        if has_r and has_a and has("p_a_tie"):
            drop.add("a")
            feat["a_exact_ties"] = True
        near_tie = not P["inexact"] and not log_w and (has_a or has_b) and has("p_near_tie")
        if near_tie:
            # the discrete choices enter utility only through tiny premia (below): in the last period all their
            # combinations are near-ties
            drop |= {"a", "b"}
        disc = [v for v in disc if v["name"] not in drop]
        names = [v["name"] for v in disc]
        if P["inexact"]:
            tab = _tab(rng, [v["n"] for v in disc], fn=lambda idx: F(rng.randint(-9, 9), 3))
        else:
            tab = _tab(rng, [v["n"] for v in disc], -4, 4)
        if names:
            terms.append(["tab", names, tab])
            uargs += names
    if has_r and has_a and "a" not in drop and "r" not in drop and has("p_int_arith"):
        # a switching-cost-like term: labels are integers, (a - r - 1) is negative for most combinations
        terms.append(mul(const(rng.choice([1, 2, -1])), ["sub", ["sub", var("a"), var("r")], const(1)]))
        feat["int_arith"] = True
    if T > 1 and has("p_period_util"):
        terms.append(mul(ci(-2, 2), var("_period")))
        uargs.append("_period")
        feat["F13"] = True
    if disc_all and near_tie:
        # values around 64 .. 256 whose differences between discrete choices can be as small as 2^-10: still exact in float32
        # (17 significant bits), but any "approximately equal" comparison in the code sees a tie
        # x64_ties: level 2^23 with premia 1/8 and 1/4 -- exact in float64, below the resolution of float32 (1 at that level);
        # such models are run with jax_enable_x64 and judged without any tolerance
        x64t = bool(P.get("x64_ties"))
        terms.append(const(1 << 23 if x64t else 128))
        if has_a:
            terms.append(mul(const(rng.choice([F(1, 8), F(-1, 8)] if x64t else [F(1, 1024), F(-1, 1024)])), var("a")))
            uargs.append("a")
        if has_b:
            terms.append(mul(const(rng.choice([F(1, 4), F(-1, 4)] if x64t else [F(1, 512), F(-1, 512)])), var("b")))
            uargs.append("b")
        feat["near_ties"] = True
        feat["x64_ties"] = x64t
    if has("p_reduction_aux") and (has_a or has_b):
        # an auxiliary function written as a reduction over a stacked array (jnp.sum(jnp.array([...]))).  It only feeds
        # utility (and can be requested as a target): lcm.simulate applies the transition functions to whole batches
        # without vmap, so a reduction inside a transition's dependencies is not supported by the library.
        src = "a" if has_a else "b"
        use_t = T > 1 and not P["no_period"]
        targs = [src, "kt"] + (["_period"] if use_t else [])
        funcs.append(mkfunc("tot", "aux", _shuf(rng, targs, P), ["ssum", mul(var(src), var("kt")), var("_period") if use_t else const(1)]))
        params["tot"] = {"kt": q(rng.choice([1, 2, 3]))}
        terms.append(var("tot"))
        uargs.append("tot")
        feat["reduction_aux"] = True
    if has("p_param_only_aux"):
        funcs.append(mkfunc("bonus", "aux", ["kb", "k"], add(var("kb"), var("k"))))
        params["bonus"] = {"kb": q(rng.randint(-2, 2)), "k": q(rng.randint(0, 3))}
        terms.append(var("bonus"))
        uargs.append("bonus")
        feat["param_only_aux"] = True
    for v in pads:      # every padding variable enters utility (its label) so that its axis is visible in the values
        terms.append(mul(const(rng.choice([1, 2, 3])), var(v["name"])))
        uargs.append(v["name"])
    two_params = has("p_two_params")
    if two_params:
        terms.append(var("g"))
        uargs.append("g")
        feat["two_params"] = has_w
    if not terms:
        terms.append(const(0))
    funcs.append(mkfunc("utility", "utility", _shuf(rng, list(dict.fromkeys(uargs)), P), add(*terms)))
    params["utility"] = {"k": q(rng.randint(0, 2))} if has_w else {}
    if two_params:
        params["utility"]["g"] = q(rng.choice([F(1, 2), 3, -1, F(5, 2)]))
    if params["utility"] and has("p_kwonly"):
        funcs[-1]["kwonly"] = sorted(params["utility"])
        feat["kwonly_params"] = True

    # ------------------------------------------------------------------ auxiliary functions
    inc_src = "a" if has_a else ("b" if has_b else None)
    has_inc = has_w and inc_src is not None
    if has_inc:
        iargs = [inc_src, "k"]
        iexpr = mul(var(inc_src), var("k"))
        if T > 1 and has("p_period_aux"):
            iargs.append("_period")
            iexpr = add(iexpr, var("_period"))
            feat["F14"] = True
        funcs.append(mkfunc("inc", "aux", _shuf(rng, iargs, P), iexpr))
        params["inc"] = {"k": q(rng.choice([1, 2]))}
        feat["F11"] = True
        feat["F12"] = params["inc"]["k"] != params["utility"].get("k")
        if has("p_alias"):
            f2 = mkfunc("inc2", "aux", list(funcs[-1]["args"]), iexpr)
            f2["alias_of"] = "inc"
            funcs.append(f2)
            params["inc2"] = {"k": q(rng.choice([F(1, 2), 3]))}
            u = next(f for f in funcs if f["kind"] == "utility")
            u["expr"] = add(u["expr"], var("inc2"))
            u["args"].insert(rng.randrange(len(u["args"]) + 1), "inc2")
            feat["aliased_function"] = True

    # ------------------------------------------------------------------ transitions
    if has_w:
        nargs = ["w"]
        e = var("w")
        if has_c:
            nargs.append("c")
            e = ["sub", e, var("c")]
        if has_inc:
            nargs.append("inc")
            e = add(e, var("inc"))
        if has_d:
            nargs.append("d")
            e = add(e, var("d"))
        collide = has("p_param_collision")
        if rng.random() < 0.3 or collide:
            pn = "k" if collide else "m"
            nargs.append(pn)
            e = ["sub", e, var(pn)]
            params["next_w"] = {pn: q(rng.choice([F(1, 2), F(1), F(3, 2)]))}
            feat["F2lo"] = True
        else:
            params["next_w"] = {}
        if h_stoch and has("p_next_reads_draw"):
            nargs.append("next_h")
            e = add(e, mul(const(F(1, 2)), var("next_h")))
            feat["next_reads_draw"] = True
        if log_w:
            e = ["max", const(log_lo), ["min", const(log_hi), add(e, const(1))]]
            feat["F4"] = True
        funcs.append(mkfunc("next_w", "next", _shuf(rng, nargs, P), e))
        if not has_c or has("p_nobind"):
            pass
        else:
            cargs = ["c", "w"]
            lhs = var("c")
            if has_d and rng.random() < 0.5:
                cargs.append("d")
                lhs = add(lhs, var("d"))
            if log_w:
                # log-grid nodes are materialised with a rounding error (logspace(1,4,3)[-1] = 3.9999998):
                # a constraint that holds with equality at a node would be decided by that error, so the
                # boundary is kept a quarter step away from every node/choice combination
                funcs.append(mkfunc("bc_constraint", "constraint", _shuf(rng, cargs, P),
                                    ["le", lhs, add(var("w"), const(F(1, 4)))]))
                params["bc_constraint"] = {}
            elif collide:
                cargs.append("k")
                funcs.append(mkfunc("bc_constraint", "constraint", _shuf(rng, cargs, P), ["le", lhs, add(var("w"), var("k"))]))
                params["bc_constraint"] = {"k": q(rng.choice([0, 1, F(1, 2)]))}
                feat["F12"] = True
            else:
                funcs.append(mkfunc("bc_constraint", "constraint", _shuf(rng, cargs, P), ["le", lhs, var("w")]))
                params["bc_constraint"] = {}
            feat["F9"] = True
            if has("p_lower_bound"):
                funcs.append(mkfunc("lb_constraint", "constraint", _shuf(rng, ["c", "kmin"], P), ["le", var("kmin"), var("c")]))
                params["lb_constraint"] = {"kmin": q(rng.choice([F(1, 2), F(3, 2)]))}
                feat["lower_bound"] = True
            if has("p_next_in_constraint") and not P["inexact"] and not log_w and not feat.get("next_reads_draw"):
                # a model function may take the output of a transition function as an argument (a borrowing limit on next
                # period's wealth): next_w is then a function argument, not a parameter
                funcs.append(mkfunc("nw_constraint", "constraint", _shuf(rng, ["next_w", "kn"], P), ["le", var("kn"), var("next_w")]))
                params["nw_constraint"] = {"kn": q(rng.choice([0, F(1, 2), F(-1, 2)]))}
                feat["next_in_constraint"] = True
            if has("p_infeasible_last"):
                funcs.append(mkfunc("pos_constraint", "constraint", ["c"], ["le", const(F(1, 2)), var("c")]))
                params["pos_constraint"] = {}
                feat["F10"] = True
    if has_z:
        src = "d" if has_d else ("b" if has_b else ("a" if has_a else None))
        if src:
            funcs.append(mkfunc("next_z", "next", _shuf(rng, ["z", src], P), ["sub", add(var("z"), var(src)), const(F(1, 2))]))
        else:
            funcs.append(mkfunc("next_z", "next", ["z"], mul(var("z"), const(F(1, 2)))))
        params["next_z"] = {}
        feat["F3"] = has_w
    dchoices = [v for v in vars_ if v["role"] == "choice" and v["kind"] == "disc" and v not in pads]
    if has_h:
        if h_stoch:
            # h_not_own (profile flag, no random draw): the stochastic state is not among its own dependencies -- a shock that
            # is serially independent but whose distribution depends on the agent's other variables
            deps = [] if (P.get("h_not_own") and (dchoices or has_r)) else ["h"]
            if dchoices and (rng.random() < 0.8 or not deps):
                deps.append(rng.choice(dchoices)["name"])
            if T > 1 and rng.random() < 0.6 and not P["no_period"]:
                deps.append("_period")
            if has_r and rng.random() < 0.4:
                deps.append("r")
            if not [d for d in deps if d != "_period"]:
                deps.append("h")
            deps = _shuf(rng, deps, P)
            feat["stochastic_without_own_lag"] = "h" not in deps
            funcs.append(mkfunc("next_h", "stoch", deps, state="h"))
            shape = [T if d == "_period" else next(v for v in vars_ if v["name"] == d)["n"] for d in deps]
            params.setdefault("shocks", {})["h"] = _rows(rng, shape, nh, bool(P.get("onehot")) and (P.get("onehot") == "always" or rng.random() < 0.8))
            feat["F16"] = len(deps) > 1
        else:
            src = rng.choice(dchoices)["name"] if dchoices else None
            if src:
                funcs.append(mkfunc("next_h", "next", _shuf(rng, ["h", src], P), ["min", const(nh - 1), ["max", var("h"), var(src)]]))
            else:
                funcs.append(mkfunc("next_h", "next", ["h"], ["sub", const(nh - 1), var("h")]))
        params["next_h"] = {}
    if has_e:
        deps = ["e"] if rng.random() < 0.7 else []
        if dchoices and rng.random() < 0.5:
            deps.append(rng.choice(dchoices)["name"])
        if has_h and rng.random() < 0.5:
            deps.append("h")
        if not deps:
            deps = ["e"]
        deps = _shuf(rng, deps, P)
        funcs.append(mkfunc("next_e", "stoch", deps, state="e"))
        shape = [next(v for v in vars_ if v["name"] == d)["n"] for d in deps]
        params.setdefault("shocks", {})["e"] = _rows(rng, shape, ne, bool(P.get("onehot")) and (P.get("onehot") == "always" or rng.random() < 0.8))
        params["next_e"] = {}
        feat["F17"] = h_stoch
    if has_h and not h_stoch and not (has_w or has_z) and has("p_dead_label"):
        # a dead-end label: no choice is feasible there, the state is reachable through next_h = min(nh-1, max(h, choice))
        funcs.append(mkfunc("alive_constraint", "constraint", ["h"], ["le", var("h"), const(nh - 2)]))
        params["alive_constraint"] = {}
        feat["dead_end_label"] = True
    if has_b and has_h and has("p_dense_constraint"):
        funcs.append(mkfunc("d_constraint", "constraint", _shuf(rng, ["b", "h"], P), ["le", var("b"), add(var("h"), const(1))]))
        params["d_constraint"] = {}

    for v in pads:
        if v["role"] == "state":
            funcs.append(mkfunc(f"next_{v['name']}", "next", [v["name"]], var(v["name"])))
    for f in funcs:
        params.setdefault(f["name"], {})
    if params.get("shocks") and has("p_unnormalised"):
        fac = rng.choice([F(1, 2), F(3, 4)])

        def scale(x):
            return q(F(x[0], x[1]) * fac) if (len(x) == 2 and all(isinstance(i, int) and not isinstance(i, bool) for i in x)) else [scale(y) for y in x]
        params["shocks"] = {k: scale(v) for k, v in params["shocks"].items()}
        feat["unnormalised_rows"] = True
    if P["shuffle"]:
        rng.shuffle(vars_)
        rng.shuffle(funcs)
        feat["F21"] = True
    feat.update({
        "T": T, "F5": has_h or has_e, "F7": has_r and has_b, "F8": int(has_c) + int(has_d),
        "F19": params["beta"] not in ([0, 1], [1, 1]), "F24": not (has_w or has_z),
        "stoch": h_stoch or has_e, "has_r": has_r, "has_w": has_w,
    })
    return {"T": T, "vars": vars_, "funcs": funcs, "params": params,
            "meta": {"feat": feat, "admitted": admitted, "fstates": (["r"] + (["q"] if has_q else [])) if has_r else [],
                     "inexact": bool(P["inexact"] or log_w),
                     **({"x64": True, "tol": [0, 1]} if feat.get("x64_ties") else {})}}


def _subst_var(e, old, new):
    if e[0] == "var":
        return ["var", new] if e[1] == old else e
    if e[0] == "const":
        return e
    if e[0] == "tab":
        return ["tab", [new if x == old else x for x in e[1]], e[2]]
    return [e[0], *[_subst_var(x, old, new) if isinstance(x, list) else x for x in e[1:]]]


def aux_chain(rng, m):
    """next_w reads `net' instead of `inc', where net(inc, kn2) = inc - kn2 is an auxiliary function of the auxiliary function."""
    nw = next((f for f in m["funcs"] if f["name"] == "next_w"), None)
    if nw is None or "inc" not in nw["args"] or any(f["name"] == "net" for f in m["funcs"]):
        return m
    nw["args"] = ["net" if a == "inc" else a for a in nw["args"]]
    nw["expr"] = _subst_var(nw["expr"], "inc", "net")
    args = ["inc", "kn2"]
    rng.shuffle(args)
    m["funcs"].insert(rng.randrange(len(m["funcs"]) + 1), mkfunc("net", "aux", args, ["sub", var("inc"), var("kn2")]))
    m["params"]["net"] = {"kn2": q(rng.choice([F(1, 2), 1, F(-1, 2)]))}
    m.setdefault("meta", {}).setdefault("feat", {})["aux_of_aux"] = True
    return m


def default_params(rng, m):
    """Declare own parameters of model functions with a default value other than the one in params (positional parameters
    with a default go to the end of the signature, as Python requires)."""
    aliased = {f.get("alias_of") for f in m["funcs"]} | {f["name"] for f in m["funcs"] if f.get("alias_of")}
    done = False
    for f in m["funcs"]:
        own = m["params"].get(f["name"])
        if f["kind"] == "stoch" or not isinstance(own, dict) or not own or f["name"] in aliased or rng.random() < 0.4:
            continue
        d = {}
        for pn, val in own.items():
            if pn in f["args"]:
                d[pn] = [val[0] + rng.choice([1, 2, -1]) * val[1], val[1]]      # value +- 1 or 2: never the value in params
        if not d:
            continue
        kw = set(f.get("kwonly") or [])
        f["args"] = [a for a in f["args"] if a in kw or a not in d] + [a for a in f["args"] if a not in kw and a in d]
        f["defaults"] = d
        done = True
    if done:
        m.setdefault("meta", {}).setdefault("feat", {})["default_params"] = True
    return m


def undefined_outside(rng, m):
    """Make utility undefined (NaN or +inf, like log or sqrt of a negative number / a division by zero) wherever a filter or
    constraint of the model fails.  Excluded combinations are never part of a maximisation, so nothing else changes."""
    u = next(f for f in m["funcs"] if f["kind"] == "utility")
    conds = [f for f in m["funcs"] if f["kind"] in ("filter", "constraint") and not m["params"].get(f["name"])
             and all(a in u["args"] or a == "_period" for a in f["args"])]
    if not conds:
        return m
    bad = [0, 0] if rng.random() < 0.6 else [1, 0]
    for f in conds:
        u["expr"] = ["ite", f["expr"], u["expr"], ["const", bad]]
        if "_period" in f["args"] and "_period" not in u["args"]:
            u["args"].append("_period")
    m.setdefault("meta", {}).setdefault("feat", {})["undefined_outside"] = True
    return m


def rand_row(rng, n, onehot=False):
    """A transition row with dyadic probabilities, zeros in random places."""
    k = 1 if onehot else rng.choice([1, 2, 2, 3, 4])
    k = min(k, n)
    probs = {1: [[F(1)]], 2: [[F(1, 2), F(1, 2)], [F(1, 4), F(3, 4)], [F(3, 4), F(1, 4)]],
             3: [[F(1, 2), F(1, 4), F(1, 4)], [F(1, 4), F(1, 2), F(1, 4)], [F(1, 4), F(1, 4), F(1, 2)]],
             4: [[F(1, 4)] * 4]}[k]
    pr = rng.choice(probs)
    pos = sorted(rng.sample(range(n), k))
    row = [F(0)] * n
    for i, x in zip(pos, pr):
        row[i] = x
    return row


def _rows(rng, shape, n, onehot=False):
    def rec(dims):
        if not dims:
            return [q(x) for x in rand_row(rng, n, onehot)]
        return [rec(dims[1:]) for _ in range(dims[0])]
    return rec(list(shape))


def _shuf(rng, xs, P):
    xs = list(xs)
    if P["shuffle"]:
        rng.shuffle(xs)
    return xs


def strip_meta(m):
    return {k: v for k, v in m.items() if k != "meta"}


# ----------------------------------------------------------------------------- initial states


def rand_initial_states(rng, m, n_agents, *, on_grid=False, off_range=True, integer=False):
    """Initial states: discrete ones among the states admitted in period 0, continuous ones on
    nodes, inside cells and (linear grids) outside the range."""
    from .mdl import grid_values

    meta = m.get("meta") or {}
    adm = meta.get("admitted")
    fstates = meta.get("fstates") or []
    out = {}
    combos = [rng.choice(adm[0]) for _ in range(n_agents)] if adm else None
    for v in m["vars"]:
        if v["role"] != "state":
            continue
        if v["kind"] == "disc":
            if adm and v["name"] in fstates:
                k = fstates.index(v["name"])
                out[v["name"]] = [c[k] for c in combos]
            else:
                out[v["name"]] = [rng.randrange(v["n"]) for _ in range(n_agents)]
        else:
            g = grid_values(v)
            vals = []
            if integer:     # integer-valued points only: nodes, points inside cells and beyond the range
                lo, hi = int(g[0]) - (0 if v["kind"] == "log" else 1), int(g[-1]) + (0 if v["kind"] == "log" else 2)
                out[v["name"]] = [F(rng.randint(max(lo, 1) if v["kind"] == "log" else lo, hi)) for _ in range(n_agents)]
                continue
            for _ in range(n_agents):
                u = rng.random()
                if on_grid or u < 0.4 or len(g) < 2:
                    x = rng.choice(g)
                elif u < 0.8 or v["kind"] == "log" or not off_range:
                    i = rng.randrange(len(g) - 1)
                    x = g[i] + (g[i + 1] - g[i]) * rng.choice([F(1, 4), F(1, 2), F(3, 4)])
                else:
                    step = g[1] - g[0]
                    x = rng.choice([g[0] - step * rng.choice([F(1, 2), F(1)]), g[-1] + step * rng.choice([F(1, 2), F(1), F(3, 2)])])
                vals.append(x)
            out[v["name"]] = vals
    return out


def twin(rng, m):
    """A model with exactly the same names, signatures, declaration orders and parameters as m but other
    function bodies (utility scaled and shifted, deterministic continuous transitions shifted): anything that
    remembers compiled functions by *name* across models of one process is exposed when m and its twin are
    run one after the other."""
    import copy

    mm = copy.deepcopy(m)
    for f in mm["funcs"]:
        if f["kind"] == "utility":
            f["expr"] = add(mul(const(rng.choice([2, 3])), f["expr"]), const(rng.choice([1, -2, 5])))
        elif f["kind"] == "next" and f["name"] in ("next_w", "next_z"):
            f["expr"] = ["sub", f["expr"], const(F(1, 2))]
        elif f["kind"] == "aux" and (f["name"] == "inc" or f.get("alias_of") == "inc"):
            f["expr"] = add(f["expr"], const(1))      # (an alias shares the function object: same body)
    return mm
