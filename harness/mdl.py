"""Model description language (MDL): neutral JSON description of an lcm model.

The same document is read by the TLA+ specification (module Mdl, through Json) and by
this module, which turns it into a *real* ``lcm.Model`` (source text for each function is
generated and exec'd) and real parameters.  Nothing in here evaluates a model: there is
no Python-side oracle.
"""
from __future__ import annotations

import math
from dataclasses import make_dataclass
from fractions import Fraction as F

# ----------------------------------------------------------------------------- numbers


def q(x):
    """Exact rational -> [num, den]."""
    x = F(x)
    return [x.numerator, x.denominator]


HUGE = 1 << 17  # finite observations are clamped to +-HUGE (spec values stay far below)
EXACT_DEN = 1 << 20
QUANT_DEN = 1 << 10


def enc(x, *, quant_den=QUANT_DEN, exact_den=EXACT_DEN):
    """Observed float -> [num, den] for TLC (32-bit ints, no floats in JSON).

    nan -> [0,0], +-inf -> [+-1,0]; a finite value is sent exactly when it is a small
    dyadic/rational, otherwise rounded to a multiple of 1/quant_den (the specification's
    comparison carries a tolerance that covers this).
    """
    x = float(x)
    if math.isnan(x):
        return [0, 0]
    if math.isinf(x):
        return [1 if x > 0 else -1, 0]
    if abs(x) >= HUGE:
        # large values are sent exactly only if they are multiples of 1/8 below 2^24 (the float64 near-tie stratum lives at
        # level 2^23); everything else is clamped -- the specification's values stay far below
        fx = F(x)
        if abs(x) < (1 << 24) and fx.denominator <= 8:
            return [fx.numerator, fx.denominator]
        return [HUGE if x > 0 else -HUGE, 1]
    fx = F(x)
    if fx.denominator <= exact_den and abs(fx.numerator) < (1 << 28):
        return [fx.numerator, fx.denominator]
    # the quantisation error must stay well below the comparison tolerance 2^-12 (1 + |x|)
    if quant_den == QUANT_DEN and abs(x) < 1024:
        quant_den = 1 << 20
    elif quant_den == QUANT_DEN and abs(x) < 16384:
        quant_den = 1 << 16
    return q(F(round(fx * quant_den), quant_den))


def is_exact(x):
    x = float(x)
    if not math.isfinite(x) or abs(x) >= HUGE:
        return True
    fx = F(x)
    return fx.denominator <= EXACT_DEN and abs(fx.numerator) < (1 << 28)


def fr(p):
    return F(p[0], p[1])


# ----------------------------------------------------------------------------- expressions


def const(x):
    return ["const", q(x)]


def var(n):
    return ["var", n]


def add(*xs):
    out = xs[0]
    for x in xs[1:]:
        out = ["add", out, x]
    return out


def mul(a, b):
    return ["mul", a, b]


def _lit(p):
    if p[1] == 0:      # the extended reals of the specification: NaN <<0,0>>, +-inf <<+-1,0>>
        return "jnp.nan" if p[0] == 0 else ("jnp.inf" if p[0] > 0 else "(-jnp.inf)")
    v = F(p[0], p[1])
    return repr(int(v)) if v.denominator == 1 else repr(float(v))


class _Codegen:
    def __init__(self):
        self.tables = {}

    def table_literal(self, t):
        def conv(x):
            if isinstance(x, bool):
                return x
            if isinstance(x, list) and len(x) == 2 and all(isinstance(i, int) and not isinstance(i, bool) for i in x):
                v = F(x[0], x[1])
                return int(v) if v.denominator == 1 else float(v)
            return [conv(y) for y in x]

        return conv(t)

    def py(self, e):
        op = e[0]
        if op == "const":
            return _lit(e[1])
        if op == "var":
            return e[1]
        b = {"add": "+", "sub": "-", "mul": "*", "le": "<=", "lt": "<", "eq": "=="}
        if op in b:
            return f"({self.py(e[1])} {b[op]} {self.py(e[2])})"
        if op == "min":
            return f"jnp.minimum({self.py(e[1])}, {self.py(e[2])})"
        if op == "max":
            return f"jnp.maximum({self.py(e[1])}, {self.py(e[2])})"
        if op == "and":
            return f"jnp.logical_and({self.py(e[1])}, {self.py(e[2])})"
        if op == "or":
            return f"jnp.logical_or({self.py(e[1])}, {self.py(e[2])})"
        if op == "not":
            return f"jnp.logical_not({self.py(e[1])})"
        if op == "ite":
            return f"jnp.where({self.py(e[1])}, {self.py(e[2])}, {self.py(e[3])})"
        if op == "ssum":
            return f"jnp.sum(jnp.array([{', '.join(self.py(x) for x in e[1:])}]))"
        if op == "tab":
            name = f"_TAB{len(self.tables)}"
            self.tables[name] = self.table_literal(e[2])
            idx = ", ".join(f"_ix({a})" for a in e[1])
            return f"{name}[{idx}]"
        raise ValueError(op)


def category_class(n, prefix="c"):
    return make_dataclass(f"Cat{n}", [(f"{prefix}{i}", int, i) for i in range(n)])


def function_sources(m):
    """Source text of every model function (for replay files and debugging)."""
    cg = _Codegen()
    out = {}
    for f in m["funcs"]:
        kw = [a for a in f["args"] if a in (f.get("kwonly") or [])]
        pos = [a for a in f["args"] if a not in kw]
        dflt = f.get("defaults") or {}                          # def f(a, b, k=3.0): a default that params overrides
        pos = [a for a in pos if a not in dflt] + [a for a in pos if a in dflt]
        wd = lambda a: f"{a}={float(fr(dflt[a]))!r}" if a in dflt else a  # noqa: E731
        args = ", ".join([wd(a) for a in pos] + (["*"] + [wd(a) for a in kw] if kw else []))      # def f(a, b, *, k): keyword-only arguments
        if f["kind"] == "stoch":
            out[f["name"]] = f"@lcm.mark.stochastic\ndef {f['name']}({args}):\n    pass\n"
        else:
            out[f["name"]] = f"def {f['name']}({args}):\n    return {cg.py(f['expr'])}\n"
    return out, cg.tables


def build_functions(m):
    import jax.numpy as jnp

    import lcm

    srcs, tables = function_sources(m)
    ns = {"jnp": jnp, "lcm": lcm, "_ix": lambda x: jnp.asarray(x).astype(jnp.int32)}
    for k, v in tables.items():
        ns[k] = jnp.asarray(v)
    funcs = {}
    for f in m["funcs"]:
        exec(srcs[f["name"]], ns)  # noqa: S102
        funcs[f["name"]] = ns[f["name"]]
    for f in m["funcs"]:
        # alias_of: the user registers ONE Python function object under two names (same body, own parameter section each)
        if f.get("alias_of"):
            funcs[f["name"]] = funcs[f["alias_of"]]
    return funcs


def build_grid(v):
    from lcm import DiscreteGrid, LinspaceGrid, LogspaceGrid

    if v["kind"] == "disc":
        return DiscreteGrid(category_class(v["n"]))
    cls = LinspaceGrid if v["kind"] == "lin" else LogspaceGrid
    return cls(start=float(fr(v["start"])), stop=float(fr(v["stop"])), n_points=v["n"])


def build(m):
    """MDL -> lcm.Model (declaration orders are those of the document)."""
    from lcm import Model

    funcs = build_functions(m)
    if (m.get("meta") or {}).get("mark_call"):
        # the user derives a stochastic variant of the model by CALLING the decorator on the deterministic transition
        # functions of discrete states -- and keeps using the plain functions in this model
        import lcm

        disc = {v["name"] for v in m["vars"] if v["role"] == "state" and v["kind"] == "disc"}
        for f in m["funcs"]:
            if f["kind"] == "next" and f["name"][len("next_"):] in disc:
                lcm.mark.stochastic(funcs[f["name"]])
    states = {v["name"]: build_grid(v) for v in m["vars"] if v["role"] == "state"}
    choices = {v["name"]: build_grid(v) for v in m["vars"] if v["role"] == "choice"}
    return Model(n_periods=m["T"], functions=funcs, states=states, choices=choices)


def _is_num(x):
    return isinstance(x, list) and len(x) == 2 and all(isinstance(i, int) and not isinstance(i, bool) for i in x)


def params(m, leaf="float"):
    """MDL params -> lcm params dict.  leaf: python 'float', 'numpy' or 'jax' scalars."""
    import jax.numpy as jnp
    import numpy as np

    def mk(v):
        v = float(v)
        if leaf == "inplace":      # mutable 0-d numpy arrays: a user may update them in place between calls
            return np.array(v, dtype=np.float32)
        if leaf == "numpy":
            return np.float32(v)
        if leaf == "jax":
            return jnp.float32(v)
        return v

    def conv(x):
        if isinstance(x, dict):
            return {k: conv(v) for k, v in x.items()}
        if _is_num(x):
            return mk(fr(x))
        return x

    def arr(x):
        if _is_num(x):
            return float(fr(x))
        return [arr(y) for y in x]

    p = {k: conv(v) for k, v in m["params"].items() if k != "shocks"}
    if "shocks" in m["params"]:
        mkarr = (lambda x: np.array(x, dtype=np.float32)) if leaf == "inplace" else jnp.array
        p["shocks"] = {k: mkarr(arr(v)) for k, v in m["params"]["shocks"].items()}
    return p


def update_params_inplace(obj, m):
    """Overwrite the values of a params object created with leaf='inplace' by those of model description m."""
    import numpy as np

    new = params(m, leaf="inplace")

    def rec(dst, src):
        for k, v in src.items():
            if isinstance(v, dict):
                rec(dst[k], v)
            else:
                dst[k][...] = np.asarray(v)
    rec(obj, new)
    return obj


def var_by_name(m, name):
    return next(v for v in m["vars"] if v["name"] == name)


def state_names(m):
    return [v["name"] for v in m["vars"] if v["role"] == "state"]


def choice_names(m):
    return [v["name"] for v in m["vars"] if v["role"] == "choice"]


def grid_values(v):
    if v["kind"] == "disc":
        return [F(i) for i in range(v["n"])]
    if v["kind"] == "lin":
        s, e = fr(v["start"]), fr(v["stop"])
        if v["n"] == 1:
            return [s]
        return [s + i * (e - s) / (v["n"] - 1) for i in range(v["n"])]
    return [fr(x) for x in v["nodes"]]


def mkvar(name, role, kind, n, start=0, stop=0, nodes=None):
    v = {"name": name, "role": role, "kind": kind, "n": n, "start": q(start), "stop": q(stop), "nodes": []}
    if kind == "log":
        v["nodes"] = [q(x) for x in nodes]
        v["start"], v["stop"] = q(nodes[0]), q(nodes[-1])
    return v


def mkfunc(name, kind, args, expr=None, state=""):
    return {"name": name, "kind": kind, "args": list(args), "expr": expr if expr is not None else const(0), "state": state}
