"""Shared machinery of the checks: context, results, evidence, replays, known findings."""
from __future__ import annotations

import hashlib
import json
import os
import random
import time
from dataclasses import dataclass, field
from pathlib import Path

VERIF = Path(__file__).resolve().parent.parent
# VERIF_SCRATCH redirects evidence and replays (mutation experiments must not touch the real ones)
_SCRATCH = os.environ.get("VERIF_SCRATCH")
OUT = Path(_SCRATCH) if _SCRATCH else VERIF / "out"
REPLAYS = OUT / "replays"
EVIDENCE = (Path(_SCRATCH) / "evidence") if _SCRATCH else VERIF / "evidence"
KNOWN = VERIF / "known_findings.json"


@dataclass
class Ctx:
    prop: str
    tier: str = "quick"
    seed: int = 0
    t0: float = field(default_factory=time.time)

    def rng(self, salt=""):
        return random.Random(f"{self.prop}:{self.seed}:{salt}")

    @property
    def thorough(self):
        return self.tier == "thorough"

    def n(self, quick, thorough):
        return thorough if self.thorough else quick


@dataclass
class Violation:
    clause: str
    replay: str
    summary: str


@dataclass
class Result:
    prop: str
    violations: list = field(default_factory=list)
    known: list = field(default_factory=list)        # KNOWN-FINDING lines
    coverage: dict = field(default_factory=dict)
    assumptions: list = field(default_factory=list)
    notes: list = field(default_factory=list)

    def merge_cov(self, **kw):
        for k, v in kw.items():
            if isinstance(v, int) and isinstance(self.coverage.get(k), int):
                self.coverage[k] += v
            elif isinstance(v, list) and isinstance(self.coverage.get(k), list):
                self.coverage[k].extend(v)
            elif isinstance(v, dict) and isinstance(self.coverage.get(k), dict):
                for kk, vv in v.items():
                    if isinstance(vv, int) and isinstance(self.coverage[k].get(kk), int):
                        self.coverage[k][kk] += vv
                    else:
                        self.coverage[k][kk] = vv
            else:
                self.coverage[k] = v


def digest(obj):
    return hashlib.sha256(json.dumps(obj, sort_keys=True, default=str).encode()).hexdigest()[:12]


def write_replay(prop, payload):
    REPLAYS.mkdir(parents=True, exist_ok=True)
    p = REPLAYS / f"{prop}-{digest(payload)}.json"
    p.write_text(json.dumps(payload, indent=1, default=str))
    return str(p)


MAX_REPLAYS = 25


def add_violation(ctx, res, clause, payload, summary):
    """Record a violation; only the first MAX_REPLAYS get a replay file (the rest are counted)."""
    res.coverage["violations_total"] = res.coverage.get("violations_total", 0) + 1
    if len(res.violations) >= MAX_REPLAYS:
        return
    res.violations.append(Violation(clause, write_replay(ctx.prop, payload), summary))


def load_known(prop):
    if not KNOWN.exists():
        return []
    data = json.loads(KNOWN.read_text())
    return [f for f in data.get("findings", []) if f["property"] == prop]


def write_evidence(ctx: Ctx, res: Result, level="model_checking"):
    EVIDENCE.mkdir(parents=True, exist_ok=True)
    cov = dict(res.coverage)
    cov.setdefault("samples", [])
    cov["samples"] = cov["samples"][:4]
    ev = {
        "property_id": ctx.prop,
        "tier": ctx.tier,
        "seed": ctx.seed,
        "level": level,
        "coverage": cov,
        "assumptions": res.assumptions,
        "wall_s": round(time.time() - ctx.t0, 2),
        "violations": len(res.violations),
        "known_findings_reported": res.known,
        "notes": res.notes,
    }
    (EVIDENCE / f"{ctx.prop}.json").write_text(json.dumps(ev, indent=1, default=str))
    return ev


def finish(ctx: Ctx, res: Result, level="model_checking"):
    """Print the verdict lines, write the evidence file, return the exit code."""
    write_evidence(ctx, res, level)
    for k in res.known:
        print(f"KNOWN-FINDING: property={ctx.prop} {k}")
    for v in res.violations:
        print(f"VIOLATION property={ctx.prop} replay={v.replay}")
        print(f"  clause={v.clause} {v.summary[:400]}")
    cov = res.coverage
    print(f"{ctx.prop} {ctx.tier} seed={ctx.seed}: violations={len(res.violations)} "
          f"evaluations={cov.get('evaluations')} validated={cov.get('traces_validated_against_impl')} "
          f"states={cov.get('states')} wall={round(time.time() - ctx.t0, 1)}s")
    return 1 if res.violations else 0


def env_seed():
    try:
        return int(os.environ.get("VERIF_SEED", "0"))
    except ValueError:
        return 0
