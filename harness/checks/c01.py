"""C01 -- solve() returns the exact backward-induction (Bellman) solution on the grid."""
from __future__ import annotations

from .. import gen
from ..core import Ctx, Result
from ..pipeline import finalize_cov, mk_spec, run_pipeline
from ..unitlib import mc_or_die

# strata: every quick run draws from each of them (DESIGN.md §6)
PROFILES = [
    ("random", {}),
    ("period-varying-space", {"p_r": 1.0, "p_per_filter": 1.0, "p_state_filter": 0.5, "T": [2, 3, 4], "max_cells": 1000}),
    ("two-stochastic", {"p_h": 1.0, "p_h_stoch": 1.0, "p_e": 1.0, "T": [2, 3], "p_z": 0.0}),
    ("stochastic, transition weights that do not sum to one", {"p_h": 1.0, "p_h_stoch": 1.0, "p_e": 0.3, "p_unnormalised": 1.0, "T": [2, 3], "p_z": 0.0}),
    ("two-continuous-states", {"p_w": 1.0, "p_z": 1.0, "p_e": 0.0, "T": [2, 3], "sizes": {"w": 5}, "max_cells": 2500}),
    ("two-continuous-states, second longer", {"p_w": 1.0, "p_z": 1.0, "p_e": 0.0, "T": [2, 3], "sizes": {"w": 3, "z": 5}, "max_cells": 2500}),
    ("several filters", {"p_r": 1.0, "p_choice_filter": 1.0, "p_state_filter": 0.5, "p_q": 0.4, "T": [2, 3]}),
    ("discrete-only", {"p_w": 0.0, "p_z": 0.0, "p_h": 1.0, "p_r": 0.7, "p_e": 0.5, "p_h_stoch": 0.5, "p_dead_label": 0.7, "sizes": {"h": 3}}),
    ("long-horizon", {"T": [4], "p_z": 0.0, "max_cells": 600}),
    ("infeasible-last-period", {"p_infeasible_last": 1.0, "p_w": 1.0, "p_c": 1.0, "p_nobind": 0.0, "T": [1, 2]}),
    ("inexact-beta-and-tables", {"inexact": True}),
    ("log-grid", {"p_log": 1.0, "p_w": 1.0, "p_z": 0.0}),
    ("filtered-and-unfiltered-choice", {"p_r": 1.0, "p_b": 1.0}),
]


def nontrivial(spec):
    m = spec["mdl"]
    restr = any(f["kind"] in ("filter", "constraint") for f in m["funcs"])
    cont_or_stoch = any(v["role"] == "state" and v["kind"] != "disc" for v in m["vars"]) or any(
        f["kind"] == "stoch" for f in m["funcs"])
    return m["T"] >= 2 and restr and cont_or_stoch


def make_specs(ctx: Ctx, n):
    rng = ctx.rng("models")
    specs = []
    for i in range(n):
        label, prof = PROFILES[i % len(PROFILES)]
        m = gen.rand_model(rng, prof)
        # every fifth case also records the per-period ccv arrays (hook solve_period, eager run) for step localisation
        plan = [{"op": "solve", "jit": False, "record_ccv": i % 5 == 0}, {"op": "solve", "jit": True},
                {"op": "rel-solve", "a": 1, "b": 2, "what": "jit-equals-eager"}]
        specs.append(mk_spec(i, m, ["solve"], plan, label=label + ("; float64" if i % 5 == 4 else ""), x64=i % 5 == 4))
    # filter-restricted states with a STOCHASTIC (one-hot) transition: the nodes of probability zero include states that the
    # filter excludes; they contribute nothing to the expectation
    from .. import laws

    r2 = ctx.rng("stochastic-restricted-state")
    k = 0
    while k < max(6, n // 15):
        m = laws.deterministic_to_degenerate(gen.rand_model(r2, {"max_cells": 600, "p_z": 0.0, "T": [2, 3], "p_r": 1.0, "p_per_filter": 0.5,
                                                                 "p_h_stoch": 0.0, "p_e": 0.0}))
        if m is not None:
            m["meta"]["feat"]["stochastic_restricted_state"] = True
            specs.append(mk_spec(len(specs), m, ["solve"], [{"op": "solve", "jit": bool(k % 2)}], label="restricted state with a stochastic transition"))
            k += 1
    return specs


def run(ctx: Ctx) -> Result:
    res = Result(ctx.prop)
    # (MC) the implementation-shaped backward loop (spec/Solve.tla) computes the declarative Bellman solution
    # for every model of the family defined in spec/MC_Solve.tla
    mc = mc_or_die("MC_Solve", "MC_Solve_thorough.cfg" if ctx.thorough else "MC_Solve.cfg", workers=16)
    specs = make_specs(ctx, ctx.n(100, 1500))
    run_pipeline(ctx, res, specs, nontrivial=nontrivial)
    res.merge_cov(states=mc["distinct"], transitions=mc["generated"], mc_states=mc["distinct"])
    finalize_cov(res, "seeded random model descriptions, 10 feature strata in rotation; distinct = different "
                      "(model, plan) hash; non-trivial = T >= 2 and a filter or constraint and a continuous or "
                      "stochastic state (so masking, interpolation/expectation and continuation all matter)")
    res.assumptions += [
        "MC_Solve: for every model of a TLA+-defined family (all filter masks of a 2x2 restricted state/choice pair, different in "
        "period 0 and later; quick 150 models, thorough 5400 incl. a stochastic state, T 1-3) the implementation-shaped machine "
        "equals the declarative solution in every period; with the state indexer of the current period (the repaired defect D2) "
        "TLC finds a counterexample (MC_Solve_d2.cfg, run by the self-test)",
        "oracle: exact rational Bellman semantics in TLA+ (spec/Bellman.tla), evaluated by TLC on every grid state of every period",
        "agreement is required up to 2^-12 (1+|v|) (2^-7 in the inexact strata); exact equality is recorded separately",
        "models outside the scope of C01 (a transition into a filter-excluded state, ill-defined -inf arithmetic) are counted as out_of_scope",
    ]
    return res
