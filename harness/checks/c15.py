"""C15 -- interpolation kernel and grid coordinates are exact inverses of the grids."""
from __future__ import annotations

from fractions import Fraction as F

from ..core import Ctx, Result
from ..mdl import mkvar, q
from ..unitlib import finalize_units, run_unit_cases

EXACT = [0, 1]


def mapcoord_cases(ctx, n):
    rng = ctx.rng("mapcoord")
    cases = []
    for i in range(n):
        rank = rng.choice([1, 1, 2, 2, 3, 4])
        shape = [rng.choice([2, 3, 4] if rank < 4 else [2, 3]) for _ in range(rank)]
        size = 1
        for s in shape:
            size *= s
        arr = [q(rng.randint(-8, 8)) for _ in range(size)]
        npts = rng.choice([1, 3, 6])
        pts = []
        for _ in range(npts):
            p = []
            for s in shape:
                u = rng.random()
                if u < 0.3:
                    x = F(rng.randrange(s))                              # on a node
                elif u < 0.7:
                    x = F(rng.randrange(4 * (s - 1) + 1), 4)             # inside
                else:
                    x = rng.choice([F(-rng.randint(1, 8), 4), F(s - 1) + F(rng.randint(1, 8), 4)])   # up to two cells outside
                p.append(q(x))
            pts.append(p)
        int_axes = []
        if i % 5 == 3:      # one axis addressed by integer-typed coordinates: nodes and whole positions outside the range
            k = rng.randrange(rank)
            int_axes = [k]
            for p in pts:
                p[k] = q(rng.choice([-2, -1, 0, shape[k] - 1, shape[k], shape[k] + 1, rng.randrange(shape[k])]))
        cases.append({"fn": "mapcoord", "kind": f"map_coordinates rank {rank}" + (" integer-typed array" if i % 7 == 6 else "")
                      + (" integer-typed coordinates" if int_axes else ""), "int_axes": int_axes, "shape": shape,
                      "arr": arr, "points": pts, "batched": i % 3 != 0, "tol": EXACT, "int_dtype": i % 7 == 6})
    return cases


def grid_cases(ctx, n):
    rng = ctx.rng("grids")
    cases = []
    for i in range(n):
        if i % 2 == 0:
            # exact linear grids: dyadic start and step, n - 1 a power of two
            npts = rng.choice([2, 3, 5, 9, 17, 33])
            step = rng.choice([F(1, 4), F(1, 2), F(1), F(2), F(8)])
            start = F(rng.randint(-16, 16), 2)
            v = mkvar("g", "state", "lin", npts, start, start + step * (npts - 1))
            lo, hi = start - 2 * step, start + step * (npts + 1)
            xs = sorted({lo + (hi - lo) * F(rng.randrange(0, 65), 64) for _ in range(8)})
            cases.append({"fn": "gridcoord", "kind": "linear grid (exact)", "grid": v, "xs": [q(x) for x in xs], "tol": EXACT})
        elif i % 4 == 1:
            # arbitrary linear grids (n - 1 not a power of two, non-dyadic bounds): tolerance
            npts = rng.randint(2, 33)
            start = F(rng.randint(-300, 300), 10)
            stop = start + F(rng.randint(1, 500), 10)
            v = mkvar("g", "state", "lin", npts, start, stop)
            xs = sorted({start + (stop - start) * F(rng.randrange(-16, 81), 64) for _ in range(8)})
            cases.append({"fn": "gridcoord", "kind": "linear grid (tolerance)", "grid": v, "xs": [q(x) for x in xs], "tol": [1, 1024]})
        else:
            # log grids with rational ratio; values inside the range only
            ratio = rng.choice([F(2), F(3), F(3, 2), F(4)])
            npts = rng.choice([2, 3, 4, 5])
            first = rng.choice([F(1), F(1, 2), F(2), F(1, 4)])
            nodes = [first * ratio ** k for k in range(npts)]
            v = mkvar("g", "state", "log", npts, nodes=nodes)
            xs = sorted({nodes[0] + (nodes[-1] - nodes[0]) * F(rng.randrange(0, 65), 64) for _ in range(8)})
            cases.append({"fn": "gridcoord", "kind": "log grid (tolerance)", "grid": v, "xs": [q(x) for x in xs], "tol": [1, 512]})
    # long exact linear grids (129 - 1025 nodes): values a thousandth of a step to either side of nodes with a high index --
    # coordinates must still increase strictly and equal (x - start) / step exactly
    r2 = ctx.rng("long-grids")
    for _ in range(max(20, n // 25)):
        npts = r2.choice([129, 257, 513, 1025])
        step = r2.choice([F(1, 2), F(1), F(2)])
        start = F(r2.randint(-8, 8))
        v = mkvar("g", "state", "lin", npts, start, start + step * (npts - 1))
        xs = set()
        for _k in range(3):
            i = r2.randrange(npts // 2, npts)
            node = start + step * i
            xs |= {node - step / 1024, node, node + step / 1024}
        cases.append({"fn": "gridcoord", "kind": "long linear grid, values next to high-index nodes", "grid": v, "xs": [q(x) for x in sorted(xs)],
                      "tol": EXACT})
    return cases


def run(ctx: Ctx) -> Result:
    res = Result(ctx.prop)
    cases = mapcoord_cases(ctx, ctx.n(1500, 30000)) + grid_cases(ctx, ctx.n(500, 8000))
    for i, c in enumerate(cases):
        c["cid"] = i
    run_unit_cases(ctx, res, cases, chunk=300, sample_keys=("fn", "shape", "arr", "points", "grid", "xs"),
                   nontrivial=lambda c: c["fn"] == "gridcoord" or any(x[1] != 1 or x[0] < 0 for p in c["points"] for x in p))
    res.merge_cov(samples=[{k: v for k, v in c.items() if k in ("fn", "shape", "arr", "points", "grid", "xs", "batched")} for c in (cases[0], cases[-1])])
    finalize_units(res, "seeded: integer arrays of rank 1-4 (2-4 points per axis) at dyadic coordinates on nodes, inside cells and up "
                        "to two cells outside, batched and unbatched; linear grids with exact nodes (n-1 a power of two), arbitrary "
                        "linear grids and log grids with rational ratio at 8 sorted values each; non-trivial = a fractional or "
                        "outside coordinate / any grid case")
    res.assumptions += [
        "map_coordinates: exact equality with Interp!MapCoordinates (integer data, dyadic coordinates: no rounding)",
        "grid laws (coordinate of node i = i, strict monotonicity, coordinate = Interp!Coord, round trip) within 2^-10/2^-9 (1+|x|) "
        "for inexact grids; for log grids the specification works from the exact nodes (no exp/log in TLA+)",
    ]
    return res
