"""C20 -- extreme-value aggregation of choice values is an exact, stable log-sum-exp."""
from __future__ import annotations

import math
from fractions import Fraction as F

from ..core import Ctx, Result
from ..mdl import q
from ..unitlib import finalize_units, run_unit_cases

ULP32 = 2.0 ** -23


def pow2_group(rng, n, M):
    """n integers <= M (M attained) with sum_i 2^(m_i - M) a power of two."""
    # split 2^k (k >= 0 small) into n powers of two: start with one term 2^k, split terms until n terms
    k = rng.randint(0, 2)
    terms = [k]
    while len(terms) < n:
        i = rng.randrange(len(terms))
        t = terms.pop(i)
        terms += [t - 1, t - 1]
    top = max(terms)
    # now sum 2^t = 2^k; shift so that the maximum exponent is 0 -> sum = 2^(k - top)
    if min(t - top for t in terms) < -12:
        return None
    ms = [M + (t - top) for t in terms]
    rng.shuffle(ms)
    return ms


def exact_cases(ctx, n):
    rng = ctx.rng("exact")
    cases = []
    while len(cases) < n:
        scale = rng.choice([0.001, 0.01, 0.3, 1.0, 2.5, 10.0, 1000.0])
        layout = rng.choice(["axes", "axes0", "segments", "both"])
        ng = rng.randint(1, 4)
        nch = rng.randint(1, 6)
        groups = []
        maxmag = 1.0
        for _ in range(ng):
            size = nch if layout in ("axes", "axes0") else (rng.randint(1, 6) if layout == "segments" else 2 * rng.randint(1, 3))
            bound = int(1e6 / (scale * math.log(2)))
            M = rng.choice([0, 1, -3, 17, -100, rng.randint(-min(bound, 10**6), min(bound, 10**6))])
            g = pow2_group(rng, size, M)
            if g is None:
                break
            groups.append(g)
            maxmag = max(maxmag, abs(M) * scale * math.log(2))
        else:
            if 8 * ULP32 * maxmag / (scale * math.log(2)) > 0.125:
                continue        # the closed form is below float32 resolution at this magnitude/scale
            tol = F(1, 256) + F(8 * ULP32 * maxmag / (scale * math.log(2))).limit_denominator(1 << 10)
            cases.append({"fn": "lse-exact", "kind": f"exact family, {layout}", "scale": scale, "layout": layout, "groups": groups,
                          "tolabs": q(tol)})
    return cases


def law_cases(ctx, n):
    rng = ctx.rng("laws")
    cases = []
    for _ in range(n):
        scale = rng.choice([0.001, 0.01, 0.5, 1.0, 3.0, 50.0, 1000.0])
        mag = rng.choice([1.0, 30.0, 1e3, 1e5, 1e6])
        layout = rng.choice(["axes", "segments"])
        ng = rng.randint(1, 4)
        nch = rng.choice([1, 2, 3, 4, 5, 8, 16])
        values = []
        for _ in range(ng):
            size = nch if layout == "axes" else rng.choice([1, 2, 3, 5, 7, 12])
            centre = rng.uniform(-mag, mag)
            spread = rng.choice([0.0, scale, 10 * scale, mag / 10])
            values.append([centre + rng.uniform(-spread, spread) for _ in range(size)])
        shift = rng.choice([0.5, -3.0, mag / 7, -mag / 3])
        # differences of two aggregates are compared in units of 16 float32 ulps of the magnitudes involved
        unit = 16 * ULP32 * (mag + abs(shift) + 4 * scale)
        coarse = 8 * ULP32 * mag / scale > 0.125      # bounds below float32 resolution: only finiteness is decided
        tol = F(64) if coarse else F(1, 128) + F(8 * ULP32 * mag / scale).limit_denominator(1 << 10)
        cases.append({"fn": "lse-laws", "kind": f"laws, {layout}", "scale": scale, "magnitude": mag, "layout": layout, "values": values,
                      "shift": shift, "unit": unit, "tolabs": q(tol)})
    return cases


def run(ctx: Ctx) -> Result:
    res = Result(ctx.prop)
    cases = exact_cases(ctx, ctx.n(400, 6000)) + law_cases(ctx, ctx.n(600, 8000))
    for i, c in enumerate(cases):
        c["cid"] = i
    run_unit_cases(ctx, res, cases, chunk=200, sample_keys=("fn", "scale", "layout", "groups", "sizes", "magnitude", "shift", "obs"),
                   nontrivial=lambda c: (c["fn"] == "lse-exact" and any(len(g) >= 2 for g in c["groups"])) or (c["fn"] == "lse-laws" and any(s >= 2 for s in c["sizes"])))
    res.merge_cov(samples=[{k: v for k, v in c.items() if k in ("fn", "scale", "layout", "groups", "magnitude", "shift")} for c in (cases[0], cases[-1])])
    finalize_units(res, "seeded: (a) the exact family v_i = s ln2 m_i with sum 2^(m_i - M) a power of two, magnitudes up to 1e6, scales "
                        "1e-3..1e3, choices along the last axis, along axis 0 and as segments; (b) arbitrary arrays (magnitude up to "
                        "1e6, 1-16 choices) for the laws; non-trivial = a state with at least two choices")
    res.assumptions += [
        "TLA+ has no exp/log: equality with s log sum exp(v/s) is decided only on the exact family (closed form s ln2 (M+k), k "
        "computed by TLC from the integers); elsewhere the listed laws pin the function: finiteness, 0 <= (emax-max)/s <= ln n "
        "(rational upper bounds of ln n), shift, axes = segments",
        "observations are normalised by the driver ((emax-max)/(s ln2); differences in units of 16 float32 ulps of magnitude + shift + 4 s, accepted up to 1/2 unit); the absolute "
        "tolerance 2^-8 + 8 ulp32(magnitude)/s is computed from the inputs",
    ]
    return res
