"""C09 -- generated functions are pure: results depend only on the arguments of the call."""
from __future__ import annotations

import copy
from fractions import Fraction as F

from .. import gen, history, tlc
from ..core import Ctx, Result, add_violation, digest
from ..mdl import q
from ..pipeline import TOL_EXACT, qinit
from ..unitlib import seqify

PROF = {"max_cells": 500, "T": [2, 3], "p_z": 0.0, "p_log": 0.0, "p_e": 0.0}


def param_variants(rng, m):
    """Three parameter sets for one model: every scalar parameter and beta take other values."""
    base = copy.deepcopy(m["params"])
    sets = {"1": base}
    for key in ("2", "3"):
        p = copy.deepcopy(base)
        p["beta"] = q(rng.choice([F(1, 4), F(1, 2), F(3, 4), F(1)]))
        for fname, d in p.items():
            if isinstance(d, dict) and fname != "shocks":
                for k in d:
                    v = F(d[k][0], d[k][1])
                    d[k] = q(v + rng.choice([F(1, 2), F(1), F(-1, 2)]) if fname != "bc_constraint" else v)
        sets[key] = p
    return sets


def generate_histories(ctx, n, depth):
    """Histories are behaviours of spec/Api.tla produced by tlc -simulate."""
    out, _, _, rc = tlc.run_tlc("MC_Api", cfg="MC_Api_gen.cfg",
                                extra=("-simulate", f"num={max(200, 6 * n)}", "-depth", str(depth + 1), "-seed", str(ctx.seed + 17)))
    hists = [seqify(h) for h in tlc.parse_prints(out, "HIST")]
    uniq = {}
    for h in hists:
        calls = [e for e in h if e["op"] not in ("create", "fill", "rejected")]
        if len(calls) >= 4:
            uniq.setdefault(digest(h), h)
    hs = list(uniq.values())
    # prefer histories with an A-B-A pattern of arguments on one function object
    def aba(h):
        calls = [(e["f"], e["p"], e["init"], e["seed"]) for e in h if e["op"] not in ("create", "fill", "rejected")]
        return any(calls[i] == calls[k] and calls[j] != calls[i] and calls[j][0] == calls[i][0]
                   for i in range(len(calls)) for j in range(i + 1, len(calls)) for k in range(j + 1, len(calls)))
    # ... and histories in which a held params object (the filled template) is passed to a function object that is later
    # called with another parameter set
    def held_then_other(h):
        calls = [e for e in h if e["op"] not in ("create", "fill", "rejected")]
        return any(a["via"] == "held" and b["f"] == a["f"] and b["p"] != a["p"] for i, a in enumerate(calls) for b in calls[i + 1:])
    hs.sort(key=lambda h: (not aba(h), digest(h)))
    held = [h for h in hs if held_then_other(h)]
    rest = [h for h in hs if not held_then_other(h)]
    k = min(len(held), max(1, n // 3))
    hs = held[:k] + rest[:n - k] + held[k:]
    if len(hs) < min(n, 5):
        raise tlc.MachineryError("tlc -simulate produced too few usable histories")
    return hs[:n], sum(1 for h in hs[:n] if aba(h)), sum(1 for h in hs[:n] if held_then_other(h))


def pipeline_cases(spec, records, cid0):
    """Value-level validation: per (model, parameter set) one TracePipeline case with the recorded calls."""
    cases = []
    by = {}
    for r in records:
        by.setdefault((r["model"], r["p"]), []).append(r)
    solves = {r["k"]: r for r in records if r["op"] == "solve"}
    for (mkey, p), recs in by.items():
        m = history.with_params(spec["models"][mkey], spec["paramsets"][mkey][p])
        events = []
        for r in recs:
            if r["op"] == "solve":
                events.append({"e": "solve", "jit": bool(r["jit"]), "n": r["n"], "shapes": r["shapes"], "V": r["V"], "ccv": []})
            else:
                fr = r["frame"]
                src = solves.get(r.get("vfrom"))
                given = r["op"] == "simulate" or bool(r.get("vfrom"))
                if given and (src is None or src["model"] != mkey):
                    continue
                events.append({"e": "simulate", "target": r["op"], "jit": bool(r["jit"]), "seed": r["seed"],
                               "vsrc": "given" if given else "own", "V": src["V"] if given else [], "N": fr["N"], "init": r["init"],
                               "targets": [], "cols": fr["cols"], "index": fr["index"], "rows": fr["rows"], "index_names": fr["index_names"], "steps": []})
        if events:
            cases.append({"cid": cid0 + len(cases), "mdl": m, "groups": ["solve", "c02", "c03"], "tol": TOL_EXACT, "reltol": TOL_EXACT,
                          "events": events, "diag_ccv": False, "diag_sim": False})
    return cases


def run(ctx: Ctx) -> Result:
    res = Result(ctx.prop)
    mc = tlc.model_check("MC_Api", cfg="MC_Api.cfg", workers=8)
    if not mc["ok"]:
        raise tlc.MachineryError("MC_Api failed\n" + mc["out"][-1500:])
    n = ctx.n(24, 300)
    hists, n_aba, n_held = generate_histories(ctx, n, 10)
    rng = ctx.rng("models")
    specs = []
    for i, h in enumerate(hists):
        models, psets, inits = {}, {}, {}
        for mk in ("1", "2"):
            # histories that are redone in other processes use a model with several restricted variables: their order must
            # not depend on the hash seed
            m = gen.rand_model(rng, {**PROF, "p_r": 1.0, "p_q": 1.0, "p_b": 1.0, "p_b_in_filter": 0.7, "p_h": 1.0, "p_h_stoch": 1.0, "max_cells": 900} if (i % 3 == 0 and mk == "1") else PROF)
            if i % 3 == 1 and mk == "2":
                # a model whose value arrays have the shape of the conditional continuation values of a 5-agent batch (one
                # continuous state with 5 nodes, no discrete variable): whatever takes over a caller's buffer can do it here
                m = gen.rand_model(rng, {**PROF, "p_h": 0.0, "p_r": 0.0, "p_e": 0.0, "p_a": 0.0, "p_b": 0.0, "p_d": 0.0, "p_w": 1.0, "p_c": 1.0,
                                         "sizes": {"w": 5}, "pad_states": 0})
            models[mk] = m
            psets[mk] = param_variants(rng, m)
            inits[mk] = {"1": qinit(gen.rand_initial_states(rng, m, 3)), "2": qinit(gen.rand_initial_states(rng, m, 5))}
        specs.append({"cid": i, "models": models, "paramsets": psets, "inits": inits, "seeds": {"1": 11, "2": 2024}, "hist": h,
                      "leafs": [rng.choice(["float", "numpy", "jax"]) for _ in h],
                      "debug": {str(k + 1): rng.random() < 0.3 for k in range(len(h))},
                      "extern_hashseeds": (["3", "4", "7", "random"] if ctx.thorough else rng.sample(["1", "3", "4", "7", "random"], 2)) if i % 3 == 0 else []})
    done = history.run_histories(specs, nproc=8)
    traces = [d[0] for d in done]
    verdicts, st = tlc.validate_traces("TraceApi", traces)
    n_ok = 0
    for spec, tr in zip(specs, traces, strict=True):
        v = verdicts[tr["cid"]]
        if v["v"][0] == "ok":
            n_ok += 1
        elif v["v"][0] == "FAIL":
            add_violation(ctx, res, v["v"][1], {"kind": "history", "property": ctx.prop, "spec": spec, "trace": tr, "verdict": v},
                          f"history {tr['cid']}: {v['v'][2][:300]}")
    # (a) every result against the semantics of its own arguments
    pcases = []
    for spec, (_, records) in zip(specs, done, strict=True):
        pcases += pipeline_cases(spec, records, len(pcases))
    pv, pst = tlc.validate_traces("TracePipeline", pcases)
    p_ok = 0
    for c in pcases:
        v = pv[c["cid"]]
        if v["v"][0] == "ok":
            p_ok += 1
        elif v["v"][0] == "FAIL":
            add_violation(ctx, res, "result-vs-own-args:" + v["v"][1], {"kind": "pipeline-case", "property": ctx.prop, "case": c, "verdict": v},
                          f"result of a call does not follow from its own arguments: {v['v'][2][:300]}")
    n_calls = sum(1 for s in specs for e in s["hist"] if e["op"] not in ("create", "fill", "rejected"))
    res.merge_cov(evaluations=len(specs), traces_validated_against_impl=n_ok, calls=n_calls, distinct_nontrivial=n_aba, histories_with_held_params_then_other_call=n_held,
                  value_level_cases=len(pcases), value_level_ok=p_ok, other_process_runs=sum(len(t["extern"]) for t in traces),
                  states=st["distinct"] + pst["distinct"] + mc["distinct"], transitions=st["generated"] + pst["generated"] + mc["generated"],
                  mc_states=mc["distinct"],
                  rule="histories of depth 10 over 2 models x 3 parameter sets x 2 initial batches x 2 seeds x jit on/off, generated by "
                       "tlc -simulate from spec/Api.tla (deduplicated, >= 4 calls); parameter leaves are python floats, numpy or jax "
                       "scalars at random; the params object of a call is a fresh one or the template returned by get_lcm_function, filled in place by the "
                       "user and held on to (Api!held); every third history is also redone in a fresh process under two of PYTHONHASHSEED 1, 3, 4, 7, random (thorough: 3, 4, 7 and random); "
                       "non-trivial = history with an A-B-A argument pattern on one function object",
                  samples=[[{k: e[k] for k in ("op", "f", "model", "target", "jit", "p", "init", "seed", "vfrom")} for e in specs[0]["hist"]]])
    res.assumptions += [
        "TraceApi: every recorded call is an enabled action of spec/Api.tla; equal denotation term => identical result digest "
        "(bitwise; exact dyadic model family, so jit on/off and vector width cannot change bits); model/params fingerprints unchanged, and so are the fingerprints of every "
        "params object the user has passed before and still holds",
        "TracePipeline: every result is additionally validated against the reference semantics of its own arguments",
    ]
    return res
