"""C03 -- simulated states follow the model's law of motion."""
from __future__ import annotations

from .. import gen
from ..core import Ctx, Result
from ..pipeline import finalize_cov, mk_spec, qinit, run_pipeline

PROFILES = [
    ("one-hot rows, permuted dependencies", {"p_h": 1.0, "p_h_stoch": 1.0, "onehot": True, "T": [2, 3, 4], "sizes": {"a": 3}}),
    ("two stochastic states", {"p_h": 1.0, "p_h_stoch": 1.0, "p_e": 1.0, "T": [2, 3], "p_z": 0.0}),
    ("period-dependent deterministic transitions", {"p_r": 1.0, "p_per_filter": 1.0, "p_period_aux": 1.0, "T": [3, 4], "max_cells": 800}),
    ("random", {"T": [2, 3]}),
    ("two continuous states", {"p_w": 1.0, "p_z": 1.0, "T": [2, 3]}),
    ("zero-pattern rows", {"p_h": 1.0, "p_h_stoch": 1.0, "p_e": 0.5, "T": [3, 4], "max_cells": 800}),
]


def nontrivial(spec):
    return spec["mdl"]["T"] >= 2


def make_specs(ctx: Ctx, n):
    rng = ctx.rng("models")
    specs = []
    for i in range(n):
        label, prof = PROFILES[i % len(PROFILES)]
        m = gen.rand_model(rng, prof)
        if i % 5 == 3:
            m["meta"]["mark_call"] = True
            label += "; decorator called on functions that stay in use"
        na = 300 if i == 7 else rng.choice([3, 8, 16])      # one panel with more agents than a byte can index
        int_init = i % 3 == 1
        init = qinit(gen.rand_initial_states(rng, m, na, integer=int_init))
        target = "solve_and_simulate" if i % 2 else "simulate"
        plan = [{"op": "simulate", "target": target, "init": init, "seed": rng.randrange(10**6), "vsrc": "own", "int_init": int_init,
                 "np_init": i % 4 == 2}]
        label = label + ("; integer-typed initial states" if int_init else "") + ("; numpy initial states" if i % 4 == 2 else "")
        specs.append(mk_spec(i, m, ["c03"], plan, label=label + ("; float64" if i % 5 == 4 else ""), x64=i % 5 == 4))
    # a shock that does not depend on its own lag but on the agent's other variables (a choice, a restricted state): every
    # agent's label must have positive probability in the row selected by ITS OWN period-t variables (one-hot rows: exact)
    r2 = ctx.rng("shock-without-own-lag")
    for j in range(max(6, n // 12)):
        m = gen.rand_model(r2, {"p_h": 1.0, "p_h_stoch": 1.0, "h_not_own": True, "onehot": "always" if j % 3 else True, "p_a": 1.0, "p_r": 0.5,
                                "T": [2, 3], "sizes": {"a": 3, "h": 3}, "max_cells": 900})
        na = r2.choice([4, 8, 16])
        plan = [{"op": "simulate", "target": "solve_and_simulate" if j % 2 else "simulate", "init": qinit(gen.rand_initial_states(r2, m, na)),
                 "seed": r2.randrange(10**6), "vsrc": "own"}]
        specs.append(mk_spec(len(specs), m, ["c03"], plan, label="stochastic state that is not among its own dependencies"))
    return specs


def run(ctx: Ctx) -> Result:
    res = Result(ctx.prop)
    if ctx.thorough:
        # (MC) the forward loop over several periods and every stochastic branch (spec/MC_Panel.tla): every completed period is
        # an admissible step of the declarative transition relation Pipeline!SimStepOK -- period 0 holds the initial states, next
        # states are the transitions evaluated at the agent's own row, a drawn label has positive probability in the row selected
        # by that agent's period-t variables
        from ..unitlib import mc_or_die

        mc = mc_or_die("MC_Panel", "MC_Panel_quick.cfg", workers=16)
        res.merge_cov(states=mc["distinct"], transitions=mc["generated"], mc_states=mc["distinct"])
    specs = make_specs(ctx, ctx.n(96, 1400))
    run_pipeline(ctx, res, specs, nontrivial=nontrivial)
    finalize_cov(res, "seeded random models, 6 strata (one-hot transition rows with dependencies listed in "
                      "non-declaration order, two stochastic states, period-dependent tables, ...); 3-16 agents; "
                      "non-trivial = at least two periods (a transition is observed)")
    res.assumptions += [
        "period-0 states must equal the supplied initial states exactly; deterministic next states must equal the "
        "specification's evaluation of next_* at the logged row exactly (dyadic models: no rounding)",
        "a stochastic state must be a label with positive probability in the row selected by the logged dependencies "
        "in signature order; with one-hot rows this pins the row selection exactly",
    ]
    return res
