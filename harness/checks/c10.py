"""C10 -- equivalent model specifications yield equal solutions."""
from __future__ import annotations

from .. import gen, laws
from ..core import Ctx, Result
from ..lawlib import mk_pair, run_pairs
from ..pipeline import finalize_cov
from .c05 import permutations_of

PROFILES = [
    ("random", {"max_cells": 700}),
    ("restricted + unrestricted", {"p_r": 1.0, "p_h": 1.0, "p_b": 0.7, "max_cells": 700, "sizes": {"r": 3}}),
    ("all states admitted (filter <-> constraint)", {"p_r": 1.0, "all_admitted": True, "p_state_filter": 0.0, "max_cells": 700}),
    ("stochastic", {"p_h": 1.0, "p_h_stoch": 1.0, "T": [2, 3], "max_cells": 700}),
    ("unrestricted discrete state and choice", {"p_r": 0.0, "p_h": 1.0, "p_b": 1.0, "p_a": 1.0, "max_cells": 900}),
    ("integer arithmetic on the restricted variables (filter <-> constraint)", {"p_r": 1.0, "p_int_arith": 1.0, "all_admitted": True, "p_state_filter": 0.0,
                                                                               "p_a_tie": 0.0, "p_r_only_filter": 0.0, "p_near_tie": 0.0, "max_cells": 700}),
    ("two stochastic states", {"p_h": 1.0, "p_h_stoch": 1.0, "p_e": 1.0, "T": [2, 3], "p_z": 0.0, "max_cells": 900}),
]


def make_specs(ctx: Ctx, n):
    rng = ctx.rng("models")
    specs = []
    i = 0
    while len(specs) < n:
        label, prof = PROFILES[i % len(PROFILES)]
        i += 1
        m = gen.rand_model(rng, prof)
        kind = i % 5
        if kind == 0:
            (mm, what), = permutations_of(rng, m, 1)[0][:1]
            specs.append(mk_pair(len(specs), "permuted-declaration-order", m, mm, label=f"{label}; {what}"))
        elif kind == 1:
            mm, rename = laws.renamed(m)
            specs.append(mk_pair(len(specs), "renamed", m, mm, rename=rename, label=label))
        elif kind == 2:
            specs.append(mk_pair(len(specs), "always-true-constraint", m, laws.add_true_constraint(rng, m), label=label))
        elif kind == 3:
            mm = laws.add_true_filter(rng, m)
            if mm is not None:
                specs.append(mk_pair(len(specs), "always-true-filter", m, mm, label=label))
        else:
            if rng.random() < 0.6 and not m["meta"]["feat"].get("undefined_outside"):
                # utility undefined (NaN / +inf) on the excluded combinations: the filter formulation never evaluates them,
                # the constraint formulation evaluates and masks them
                gen.undefined_outside(rng, m)
                label += "; utility undefined outside the restriction"
            mm = laws.filter_to_constraint(m)
            if mm is not None and m["meta"]["admitted"] and all(len(a) == len(m["meta"]["admitted"][0]) for a in m["meta"]["admitted"]):
                specs.append(mk_pair(len(specs), "filter-as-constraint", mm, m, label=label))
    return specs


def run(ctx: Ctx) -> Result:
    res = Result(ctx.prop)
    specs = make_specs(ctx, ctx.n(70, 1000))
    run_pairs(ctx, res, specs, nontrivial=lambda s: s["law"] != "always-true-constraint")
    finalize_cov(res, "seeded random models (4 strata) x rewritings: another declaration order of states, choices and functions; "
                      "consistent renaming of variables/functions/parameters; an always-true constraint; an always-true filter "
                      "(turns unrestricted variables into restricted ones: another layout); the model's discrete restriction as "
                      "constraint instead of filter; non-trivial = the rewriting changes names or the layout")
    res.assumptions += [
        "both solutions are recorded from the real solve function; TLC maps each array through the layout of its own model "
        "(StateSpace!Unflat) and requires equal values for every state that is in the space of both (Relations!RelBad)",
        "for the small models TLC also solves both models with the reference semantics and checks that the law holds there "
        "(clause SPEC-LAW = machinery error)",
    ]
    return res
