"""C12 -- specifications are rejected up front or run to completion."""
from __future__ import annotations

import copy
from fractions import Fraction as F

from .. import gen
from ..core import Ctx, Result, load_known
from ..mdl import add, const, mkfunc, mkvar, mul, q, var
from ..pipeline import qinit
from ..unitlib import finalize_units, mc_or_die, run_unit_cases, seqify, tlc_cases

BASE = {"p_h": 1.0, "p_h_stoch": 0.0, "p_w": 1.0, "p_a": 1.0, "p_c": 1.0, "p_z": 0.0, "p_log": 0.0, "max_cells": 600}
TEMPLATES = [
    ("plain", {**BASE, "p_r": 0.0, "p_b": 0.0, "p_e": 0.0}),
    ("filtered", {**BASE, "p_r": 1.0, "p_b": 0.5}),
    ("stochastic", {**BASE, "p_e": 1.0, "p_r": 0.0, "T": [2, 3]}),
    ("two stochastic states", {**BASE, "p_h_stoch": 1.0, "p_e": 1.0, "p_r": 0.3, "T": [2, 3], "max_cells": 900}),
    ("dense choice + constraint", {**BASE, "p_b": 1.0, "p_dense_constraint": 1.0, "p_r": 0.0}),
    ("a single period", {**BASE, "T": [1], "p_r": 0.5, "p_b": 0.5}),      # rules that could be thought moot without a next period
]


# ----------------------------------------------------------------------------- catalogue of accepted-but-unusual shapes
def _base_vars(extra_states=(), extra_choices=()):
    return [mkvar("w", "state", "lin", 3, 0, 2), *extra_states, mkvar("c", "choice", "lin", 3, 0, 1), *extra_choices]


def _m(T, vars_, funcs, params=None):
    p = {"beta": q(F(1, 2))}
    for f in funcs:
        p.setdefault(f["name"], {})
    p.update(params or {})
    return {"T": T, "vars": vars_, "funcs": funcs, "params": p, "meta": {"feat": {}, "admitted": None, "inexact": False}}


U_WC = mkfunc("utility", "utility", ["w", "c"], add(var("c"), var("w")))
NEXT_W = mkfunc("next_w", "next", ["w", "c"], ["sub", var("w"), var("c")])
BC = mkfunc("bc_constraint", "constraint", ["c", "w"], ["le", var("c"), var("w")])


def catalogue():
    d2 = lambda n, role: mkvar(n, role, "disc", 2)  # noqa: E731
    cat = []
    cat.append(("no choices", _m(2, [mkvar("w", "state", "lin", 3, 0, 2)],
                                 [mkfunc("utility", "utility", ["w"], var("w")), mkfunc("next_w", "next", ["w"], var("w"))])))
    cat.append(("one period", _m(1, _base_vars(), [U_WC, NEXT_W, BC])))
    cat.append(("no continuous variable", _m(2, [d2("h", "state"), d2("a", "choice")],
                                             [mkfunc("utility", "utility", ["h", "a"], add(var("h"), var("a"))),
                                              mkfunc("next_h", "next", ["h", "a"], ["max", var("h"), var("a")])])))
    cat.append(("one-point continuous choice grid", _m(2, [mkvar("w", "state", "lin", 3, 0, 2), mkvar("c", "choice", "lin", 1, 1, 2)],
                                                       [U_WC, NEXT_W])))
    cat.append(("one-point discrete choice", _m(2, [mkvar("w", "state", "lin", 3, 0, 2), mkvar("a", "choice", "disc", 1)],
                                                [mkfunc("utility", "utility", ["w", "a"], add(var("w"), var("a"))),
                                                 mkfunc("next_w", "next", ["w"], var("w"))])))
    cat.append(("state only in a constraint", _m(2, _base_vars([d2("h", "state")]),
                                                 [mkfunc("utility", "utility", ["c"], var("c")), NEXT_W,
                                                  mkfunc("next_h", "next", ["h"], var("h")),
                                                  mkfunc("x_constraint", "constraint", ["c", "w", "h"], ["le", var("c"), add(var("w"), var("h"))])])))
    cat.append(("state only in a filter", _m(2, _base_vars([d2("r", "state")], [d2("a", "choice")]),
                                             [mkfunc("utility", "utility", ["c", "w", "a"], add(var("c"), add(var("w"), var("a")))), NEXT_W, BC,
                                              mkfunc("next_r", "next", ["r"], var("r")),
                                              mkfunc("m_filter", "filter", ["r", "a"], ["le", var("a"), var("r")])])))
    cat.append(("unused discrete choice", _m(2, _base_vars((), [d2("b", "choice")]), [U_WC, NEXT_W, BC])))
    cat.append(("unused continuous choice", _m(2, _base_vars((), [mkvar("d", "choice", "lin", 2, 0, 1)]), [U_WC, NEXT_W, BC])))
    cat.append(("choice only in a transition", _m(2, _base_vars((), [d2("a", "choice")]),
                                                  [U_WC, mkfunc("next_w", "next", ["w", "c", "a"], add(["sub", var("w"), var("c")], var("a"))), BC])))
    cat.append(("stochastic state depending on the period only", _m(3, _base_vars([d2("h", "state")]),
               [mkfunc("utility", "utility", ["w", "c", "h"], add(var("c"), mul(var("w"), var("h")))), NEXT_W, BC,
                mkfunc("next_h", "stoch", ["_period"], state="h")],
               {"shocks": {"h": [[q(F(1, 2)), q(F(1, 2))], [q(1), q(0)], [q(0), q(1)]]}})))
    cat.append(("stochastic state without dependencies", _m(2, _base_vars([d2("h", "state")]),
               [mkfunc("utility", "utility", ["w", "c", "h"], add(var("c"), mul(var("w"), var("h")))), NEXT_W, BC,
                mkfunc("next_h", "stoch", [], state="h")], {"shocks": {"h": [q(F(1, 4)), q(F(3, 4))]}})))
    cat.append(("filter on choices only", _m(2, _base_vars((), [d2("a", "choice"), d2("b", "choice")]),
               [mkfunc("utility", "utility", ["w", "c", "a", "b"], add(var("c"), add(var("a"), var("b")))), NEXT_W, BC,
                mkfunc("ab_filter", "filter", ["a", "b"], ["le", var("a"), var("b")])])))
    cat.append(("auxiliary function of parameters only", _m(2, _base_vars(),
               [mkfunc("utility", "utility", ["w", "c", "bonus"], add(var("c"), add(var("w"), var("bonus")))), NEXT_W, BC,
                mkfunc("bonus", "aux", ["kb"], mul(var("kb"), const(2)))], {"bonus": {"kb": q(1)}})))
    cat.append(("two filters and two constraints", _m(2, _base_vars([mkvar("r", "state", "disc", 3)], [d2("a", "choice")]),
               [mkfunc("utility", "utility", ["w", "c", "a", "r"], add(var("c"), add(var("a"), var("r")))), NEXT_W, BC,
                mkfunc("next_r", "next", ["r"], var("r")),
                mkfunc("m_filter", "filter", ["r", "a"], ["le", var("a"), var("r")]),
                mkfunc("n_filter", "filter", ["r"], ["le", const(0), var("r")]),
                mkfunc("p_constraint", "constraint", ["a", "c"], ["le", var("a"), add(var("c"), const(1))])])))
    # ---- shapes that are accepted today and fail later: listed in known_findings.json
    cat.append(("state only in a transition (issue #30)", _m(2, _base_vars([d2("h", "state")]),
               [U_WC, mkfunc("next_w", "next", ["w", "c", "h"], add(["sub", var("w"), var("c")], var("h"))), BC,
                mkfunc("next_h", "next", ["h"], var("h"))])))
    cat.append(("no states", _m(2, [mkvar("c", "choice", "lin", 3, 0, 1)], [mkfunc("utility", "utility", ["c"], var("c"))])))
    cat.append(("one-point state grid", _m(2, [mkvar("w", "state", "lin", 1, 1, 2), mkvar("c", "choice", "lin", 3, 0, 1)],
                                              [U_WC, mkfunc("next_w", "next", ["w"], var("w"))])))
    cat.append(("filter over a continuous variable", _m(2, _base_vars(), [U_WC, NEXT_W,
               mkfunc("cw_filter", "filter", ["c", "w"], ["le", var("c"), var("w")])])))
    cat.append(("name containing next_", _m(2, [mkvar("wnext_x", "state", "lin", 3, 0, 2), mkvar("c", "choice", "lin", 3, 0, 1)],
               [mkfunc("utility", "utility", ["wnext_x", "c"], add(var("c"), var("wnext_x"))),
                mkfunc("next_wnext_x", "next", ["wnext_x", "c"], ["sub", var("wnext_x"), var("c")])])))
    return cat


def init_for(rng, m, n):
    return qinit(gen.rand_initial_states(rng, m, n, on_grid=False, off_range=False))


def extras(ctx, res, gen_cases):
    """Beyond C12 (evidence only, never a verdict of this check): the ModelInitilizationError names every rule violated at the
    model stage (Lifecycle!ReportComplete/ReportSound, phrases from Lifecycle!RuleMarker), and Model.replace gives a new,
    validated object and leaves the original alone (Lifecycle!ReplaceClause)."""
    from .. import tlc, units

    rng = ctx.rng("extras")
    cases = []
    for g in gen_cases:
        rules = [r for r in g["rules"] if r in ("R1", "R2", "R3", "R4")]
        if len(rules) < 1 or len(rules) != len(g["rules"]):
            continue
        m = gen.rand_model(rng, {"max_cells": 400, "p_w": 1.0, "p_h": 1.0})
        cases.append({"cid": len(cases), "fn": "errreport", "mdl": m, "rules": rules, "markers": g["markers"], "variant": len(cases)})
    for field in ("n_periods", "description", "functions", "states"):
        for _ in range(3):
            cases.append({"cid": len(cases), "fn": "replace", "mdl": gen.rand_model(rng, {"max_cells": 400}), "field": field})
    done = units.run_units(cases, chunk=10)
    verdicts, st = tlc.validate_traces("TraceUnits", done)
    bad = [(c["fn"], verdicts[c["cid"]]["v"][1:]) for c in done if verdicts[c["cid"]]["v"][0] != "ok"]
    res.merge_cov(extras_error_report_and_replace_cases=len(done), extras_error_report_and_replace_agree=len(done) - len(bad),
                  states=st["distinct"], transitions=st["generated"])
    if bad:
        res.notes.append(f"error reports / Model.replace differ from the specification on {len(bad)} of {len(done)} cases "
                         f"(outside the listed properties; not a violation): {bad[:3]}")


def run(ctx: Ctx) -> Result:
    res = Result(ctx.prop)
    mc = mc_or_die("MC_Lifecycle", "MC_Lifecycle.cfg", workers=4)
    rule_sets = [seqify(g) for g in tlc_cases("MC_Lifecycle", "MC_Lifecycle_gen.cfg")]
    rng = ctx.rng("templates")
    cases = []
    n_variants = ctx.n(1, 4)
    for ti, (tname, prof) in enumerate(TEMPLATES):
        for k in range(n_variants):
            m = gen.rand_model(rng, prof)
            init = init_for(rng, m, 3)
            for g in rule_sets:
                # quick: every rule set on one template each (rotating), singles and pairs on all templates
                if not ctx.thorough and len(g["rules"]) > 2 and (hash(tuple(g["rules"])) + ti) % len(TEMPLATES) != 0:
                    continue
                cases.append({"fn": "lifecycle", "kind": f"rule sets on template '{tname}'", "mdl": m, "rules": g["rules"],
                              "expected_stage": g["expected_stage"], "variant": rng.randrange(10**6), "init": init, "seed": k,
                              "jit": rng.random() < 0.7, "via_replace": rng.random() < 0.3})
    # the converse: accepted models run to completion -- catalogue + random in-scope models
    known = {k["id"]: k for k in load_known(ctx.prop)}
    kf_names = {k["match"]["catalogue"]: k for k in known.values() if k.get("status") == "known" and "catalogue" in k.get("match", {})}
    kf_cases = {}
    for name, m in catalogue():
        c = {"fn": "lifecycle", "kind": "catalogue", "label": name, "mdl": m, "rules": [], "expected_stage": "none",
             "variant": 0, "init": init_for(rng, m, 1 if "single" in name else 2) if any(v["role"] == "state" for v in m["vars"]) else {},
             "seed": 1, "jit": True}
        if name in kf_names:
            kf_cases[name] = c
        else:
            cases.append(c)
    for i in range(ctx.n(40, 400)):
        m = gen.rand_model(rng, {"max_cells": 800, "p_e": 0.5, "p_h_stoch": 0.8, "p_state_filter": 0.4})
        cases.append({"fn": "lifecycle", "kind": "random accepted model", "mdl": m, "rules": [], "expected_stage": "none", "variant": 0,
                      "init": init_for(rng, m, rng.choice([1, 3])), "seed": i, "jit": i % 2 == 0})
    # accepted instances of every template (no rule violated), several per template
    for tname, prof in TEMPLATES:
        for k in range(ctx.n(3, 12)):
            m = gen.rand_model(rng, prof)
            cases.append({"fn": "lifecycle", "kind": f"accepted instance of template '{tname}'", "mdl": m, "rules": [], "expected_stage": "none",
                          "variant": 0, "init": init_for(rng, m, 3), "seed": k, "jit": k % 2 == 0})
    for i, c in enumerate(cases):
        c["cid"] = i
    run_unit_cases(ctx, res, cases, chunk=12, sample_keys=("kind", "label", "rules", "mdl_summary", "variant"),
                   nontrivial=lambda c: bool(c["rules"]) or c["kind"] == "catalogue")
    # known findings: each stored shape is re-run; still failing -> KNOWN-FINDING line, anything else is judged normally
    if kf_cases:
        from .. import tlc, units
        kc = list(kf_cases.values())
        for i, c in enumerate(kc):
            c["cid"] = 10**6 + i
        done = units.run_units(kc, chunk=4)
        verdicts, _ = tlc.validate_traces("TraceUnits", done)
        for c in done:
            v = verdicts[c["cid"]]["v"]
            ent = kf_names.get(c["label"])
            if v[0] == "FAIL":
                first_err = next((t for t in c["trace"] if not t["ok"]), {})
                mt = ent["match"] if ent else {}
                if ent and mt.get("clause") == v[1] and mt.get("cls") == first_err.get("cls") and mt.get("stage") == first_err.get("stage"):
                    res.known.append(f"{ent['id']}: {c['label']}: {v[1]} at stage {first_err.get('stage')} ({first_err.get('cls')})")
                else:
                    from ..core import add_violation
                    add_violation(ctx, res, v[1], {"kind": "unit", "property": ctx.prop, "case": c, "verdict": verdicts[c["cid"]]},
                                  f"catalogue shape '{c['label']}': {v[2][:300]}")
        res.merge_cov(known_finding_shapes=len(kc))
    res.merge_cov(states=mc["distinct"], transitions=mc["generated"], rule_sets=len(rule_sets), exhaustive=bool(ctx.thorough),
                  samples=[{k: v for k, v in c.items() if k in ("kind", "label", "rules", "expected_stage")} for c in (cases[0], cases[len(cases) // 2], cases[-1])])
    finalize_units(res, "TLC enumerates all 2^8 sets of violated rules (R1..R8); every set is applied to 4 base templates (quick: "
                        "singles and pairs on all templates, larger sets on one template each; 1 (thorough 4) random instances per "
                        "template, random variant of each violation); converse: a catalogue of accepted-but-unusual shapes and seeded "
                        "random accepted models must solve and simulate; non-trivial = at least one rule violated or a catalogue shape")
    res.assumptions += [
        "a rule-violating specification must fail at grid construction, Model(...) or get_lcm_function(...) with "
        "GridInitializationError, ModelInitilizationError or ValueError (Lifecycle!LifecycleClause); which of the three stages "
        "rejects is not prescribed",
        "shapes listed in known_findings.json are re-run and reported as KNOWN-FINDING while they still fail the same way",
    ]
    return res
