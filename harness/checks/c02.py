"""C02 -- simulated decisions are feasible maximisers of the agent's objective."""
from __future__ import annotations

from .. import gen
from ..core import Ctx, Result
from ..pipeline import finalize_cov, mk_spec, qinit, run_pipeline

# the quantifier of the property: every mix of filtered / unfiltered discrete choices with
# 0, 1, 2 continuous choices of unequal sizes
LATTICE = []
for _filt in (0, 1):
    for _unf in (0, 1):
        for _nc in (0, 1, 2):
            if _filt + _unf + _nc == 0:
                continue
            LATTICE.append((f"filtered={_filt} unfiltered={_unf} continuous={_nc}",
                            {"p_r": float(_filt), "p_a": float(_filt), "p_b": float(_unf),
                             "p_c": 1.0 if _nc >= 1 else 0.0, "p_d": 1.0 if _nc == 2 else 0.0, "p_w": 1.0}))
EXTRA = [
    ("period-varying-space", {"p_r": 1.0, "p_per_filter": 1.0, "T": [2, 3]}),
    ("stochastic", {"p_h": 1.0, "p_h_stoch": 1.0, "T": [2, 3]}),
    ("discrete-only", {"p_w": 0.0, "p_z": 0.0, "p_h": 1.0}),
    ("inexact", {"inexact": True}),
    ("two-continuous-states", {"p_w": 1.0, "p_z": 1.0, "sizes": {"w": 5}, "max_cells": 2500}),
    ("two-continuous-states, second longer", {"p_w": 1.0, "p_z": 1.0, "sizes": {"w": 3, "z": 5}, "max_cells": 2500}),
    ("log-grid", {"p_log": 1.0, "p_w": 1.0, "p_z": 0.0}),
    ("log-grid that does not start at 1, several periods", {"p_log": 1.0, "p_w": 1.0, "p_z": 0.0, "T": [2, 3], "log_first": [2, 0.5]}),
    ("several filters", {"p_r": 1.0, "p_choice_filter": 1.0, "p_state_filter": 0.5, "p_q": 0.4}),
    ("near-ties between restricted choices", {"p_r": 1.0, "p_near_tie": 1.0, "p_b": 0.5, "max_cells": 800, "all_admitted": True}),
    ("near-ties between restricted choices, one period", {"p_r": 1.0, "p_near_tie": 1.0, "p_b": 0.5, "T": [1], "sizes": {"a": 3}}),
    ("near-ties between restricted choices, two restricted choices", {"p_r": 1.0, "p_near_tie": 1.0, "p_b": 1.0, "p_b_in_filter": 1.0, "T": [1, 2], "max_cells": 800}),
    ("lower-bound constraint, symmetric utility (ties with excluded grid points)",
     {"p_lower_bound": 1.0, "p_w": 1.0, "p_c": 1.0, "p_quadratic": 1.0, "p_nobind": 0.0, "T": [1, 2], "sizes": {"c": 5}, "p_z": 0.0}),
    ("two long continuous choice grids (17 x 17 = 289 combinations; the flattened arg-max index exceeds 255)",
     {"p_w": 1.0, "p_c": 1.0, "p_d": 1.0, "sizes": {"c": 17, "d": 17, "w": 3}, "c_stop": 4, "p_quadratic": 0.0, "T": [1, 2], "max_cells": 8000,
      "p_r": 0.0, "p_a": 0.0, "p_b": 0.0, "p_h": 0.0, "p_z": 0.0, "p_e": 0.0, "p_nobind": 0.0, "p_lower_bound": 0.0, "p_next_in_constraint": 0.0}),
    ("near-ties between unrestricted choices", {"p_r": 0.0, "p_a": 1.0, "p_b": 1.0, "p_near_tie": 1.0, "max_cells": 800}),
]
PROFILES = LATTICE + EXTRA


def nontrivial(spec):
    m = spec["mdl"]
    nchoice = 1
    for v in m["vars"]:
        if v["role"] == "choice":
            nchoice *= v["n"]
    return nchoice >= 4


def make_specs(ctx: Ctx, n):
    rng = ctx.rng("models")
    specs = []
    for i in range(n):
        label, prof = PROFILES[i % len(PROFILES)]
        m = gen.rand_model(rng, prof)
        na = rng.choice([1, 2, 4, 8])
        int_init = i % 4 == 3
        init = qinit(gen.rand_initial_states(rng, m, na, integer=int_init))
        mode = i % 3
        np_init = i % 7 == 5          # numpy arrays as initial states
        if mode == 0:      # value arrays produced by solve and handed to the simulate target
            # every other such case also records the intermediate state of each period (hooks) for step localisation
            plan = [{"op": "simulate", "target": "simulate", "init": init, "seed": rng.randrange(10**6), "vsrc": "given", "int_init": int_init,
                     "record_steps": i % 6 == 0}]
            kind = "arrays from solve"
        elif mode == 1:    # the combined target: arrays in use = the model's solution
            plan = [{"op": "simulate", "target": "solve_and_simulate", "init": init, "seed": rng.randrange(10**6), "vsrc": "own", "int_init": int_init}]
            kind = "solve_and_simulate"
        else:              # arbitrary arrays of the right shape
            arb = _arbitrary(rng, m)
            # ... handed to the simulate target or (every third such case) to the combined target, which accepts them too
            tgt = "solve_and_simulate" if i % 9 == 8 else "simulate"
            plan = [{"op": "simulate", "target": tgt, "init": init, "seed": rng.randrange(10**6), "vsrc": "given",
                     "arbitrary": arb, "int_init": int_init}]
            kind = "arbitrary arrays" + (" passed to the combined target" if tgt != "simulate" else "")
        plan[0]["np_init"] = np_init
        specs.append(mk_spec(i, m, ["c02"], plan, label=f"{label}; {kind}" + ("; float64" if i % 5 == 4 else ""), x64=i % 5 == 4))
    # every period is a different problem although no signature of utility, constraints or transitions mentions _period: the
    # period enters only through an auxiliary function (three or more periods, so that there are middle periods)
    r2 = ctx.rng("period-through-auxiliary")
    for j in range(max(4, n // 20)):
        m = gen.rand_model(r2, {"p_period_util": 0.0, "p_period_aux": 1.0, "p_period_next": 0.0, "p_per_filter": 0.0, "p_w": 1.0, "p_a": 1.0,
                                "p_h_stoch": 0.0, "p_e": 0.0, "p_reduction_aux": 0.0, "T": [3, 4], "max_cells": 800})
        init = qinit(gen.rand_initial_states(r2, m, r2.choice([3, 5])))
        plan = [{"op": "simulate", "target": "solve_and_simulate" if j % 2 else "simulate", "init": init, "seed": r2.randrange(10**6), "vsrc": "own"}]
        specs.append(mk_spec(len(specs), m, ["c02"], plan, label="period enters only through an auxiliary function, T >= 3"))
    # one large batch (more rows per period than 2^16): 12 agents spread over it are judged row by row
    from ..pipeline import LARGE_N, embed_positions

    m = gen.rand_model(r2, {"p_w": 1.0, "p_c": 1.0, "T": [2], "p_r": 1.0, "p_e": 0.0, "max_cells": 600})
    init = qinit(gen.rand_initial_states(r2, m, 12))
    specs.append(mk_spec(len(specs), m, ["c02"], [{"op": "simulate", "target": "solve_and_simulate", "init": init, "seed": 7, "vsrc": "own",
                                                    "embed": {"n_full": LARGE_N[1], "positions": embed_positions(r2, 12, LARGE_N[1])}}],
                         label=f"large batch ({LARGE_N[1]} agents), 12 agents judged"))
    return specs


def _arbitrary(rng, m):
    """Arbitrary small dyadic value arrays, one flat list per period (much longer than needed;
    the driver cuts them to the shapes solve returns)."""
    ns = 1
    for v in m["vars"]:
        if v["role"] == "state":
            ns *= v["n"]
    return [[rng.randint(-16, 16) / 2 for _ in range(ns)] for _ in range(m["T"])]


D18 = "SKIP:D18-infeasible-choice-reported-where-the-feasible-maximum-is-minus-infinity"


def known_finding_d18(ctx, res):
    """D18 (known_findings.json): the stored reproducer is re-run; while the code still reports an infeasible choice with value
    -inf where the feasible maximum is -inf, TracePipeline sets that row aside (Bellman!RowChoice) and says so in its diagnostics:
    reported as KNOWN-FINDING.  Anything else the reproducer shows is judged as usual."""
    import json

    from .. import drive, tlc
    from ..core import VERIF, add_violation, load_known

    ent = next((k for k in load_known(ctx.prop) if k["id"] == "D18" and k["status"] == "known"), None)
    if ent is None:
        return
    rep = json.loads((VERIF / ent["reproducer"]).read_text())
    spec = mk_spec(10**6, rep["mdl"], ["c02"], [{"op": "simulate", "target": rep["target"], "init": rep["init"], "seed": rep["seed"],
                                                  "vsrc": "own"}], label="D18 reproducer")
    case = drive.run_cases([spec], nproc=1)[0]
    v = tlc.validate_traces("TracePipeline", [case], nproc=1)[0][case["cid"]]
    if v["v"][0] == "FAIL":
        add_violation(ctx, res, v["v"][1], {"kind": "pipeline", "property": ctx.prop, "spec": spec, "case": case, "verdict": v},
                      f"D18 reproducer fails differently: {v['v'][2][:200]}")
    elif ent["match"]["diag"] in (v.get("diag") or []):
        res.known.append("D18: agent whose feasible choices all have objective -inf (known/D18.json: period 0, r=0, w=7/2) is reported "
                         "with value -inf and an infeasible choice")


def run(ctx: Ctx) -> Result:
    res = Result(ctx.prop)
    if ctx.thorough:
        # (MC) the implementation-shaped forward step (spec/Simulate.tla: data rows, first/last arg-max rules, selection
        # through the optimal row) against the declarative decision rule, for every model of spec/Family.tla and every
        # batch of two agents on nodes, inside cells and outside the grid range (invariant ChoiceFeasibleAndMaximal)
        from ..unitlib import mc_or_die

        mc = mc_or_die("MC_Sim", "MC_Sim.cfg", workers=16)
        res.merge_cov(states=mc["distinct"], transitions=mc["generated"], mc_states=mc["distinct"])
    specs = make_specs(ctx, ctx.n(110, 1500))
    run_pipeline(ctx, res, specs, nontrivial=nontrivial)
    known_finding_d18(ctx, res)
    finalize_cov(res, "seeded random models over the lattice {filtered, unfiltered discrete choice} x {0,1,2 continuous "
                      "choices of unequal size} plus 5 extra strata; 1-8 agents on grid nodes, inside cells and outside "
                      "the grid range; value arrays in use = solve output / the combined target / arbitrary arrays; "
                      "non-trivial = at least 4 choice combinations")
    res.assumptions += [
        "every row is judged by TLC: choices are grid values, pass all filters and constraints at the logged state, and "
        "attain max Q computed by the specification from the value arrays in use (never an arg-max identity)",
        "agents without any feasible choice are outside the property (rows_out_of_scope)",
    ]
    return res
