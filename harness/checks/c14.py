"""C14 -- pre-computed values on a grid are represented as a faithful function."""
from __future__ import annotations

from fractions import Fraction as F

from ..core import Ctx, Result
from ..mdl import mkvar, q
from ..unitlib import finalize_units, mc_or_die, run_unit_cases, seqify, tlc_cases

EXACT = [0, 1]


def cont_grid(rng, log):
    if log:
        ratio = rng.choice([F(2), F(3), F(3, 2)])
        n = rng.choice([2, 3, 4])
        first = rng.choice([F(1), F(1, 2), F(2)])
        return mkvar("x", "state", "log", n, nodes=[first * ratio ** k for k in range(n)])
    n = rng.choice([2, 3, 5])
    step = rng.choice([F(1, 2), F(1), F(2)])
    start = F(rng.randint(-4, 4))
    return mkvar("x", "state", "lin", n, start, start + step * (n - 1))


def points_for(rng, sparse, indexer, dense, cont, k):
    from ..mdl import grid_values

    pts = []
    adm = [i for i, v in enumerate(indexer) if v >= 0]
    for _ in range(k):
        sp = []
        if sparse:
            flat = rng.choice(adm) if (adm and rng.random() < 0.9) else rng.randrange(len(indexer))
            for s in reversed(sparse):
                sp.append(flat % s)
                flat //= s
            sp.reverse()
        dn = [rng.randrange(s) for s in dense]
        cx = []
        for g in cont:
            nodes = grid_values(g)
            u = rng.random()
            if u < 0.3:
                x = rng.choice(nodes)
            elif u < 0.75 or g["kind"] == "log":
                i = rng.randrange(len(nodes) - 1)
                x = nodes[i] + (nodes[i + 1] - nodes[i]) * rng.choice([F(1, 4), F(1, 2), F(3, 4)])
            else:
                st = nodes[1] - nodes[0]
                x = rng.choice([nodes[0] - st * rng.choice([F(1, 2), F(1), F(2)]), nodes[-1] + st * rng.choice([F(1, 2), F(1), F(2)])])
            cx.append(q(x))
        pts.append({"sparse": sp, "dense": dn, "cont": cx})
    return pts


def nonfinite_elsewhere(k, arr, pts, sparse, idx, nadm, dense, cont):
    """In every third case with a discrete axis: -inf / +inf / NaN stored in discrete cells that NO evaluation point addresses
    (lcm itself stores -inf for states without feasible choice).  The function must return the entry selected exactly by the
    labels, so what other cells hold is irrelevant.  (Own random stream: the cases are otherwise unchanged.)"""
    import random

    r2 = random.Random(f"nonfinite:{k}")
    dshape = ([nadm] if sparse else []) + list(dense)
    if k % 3 != 1 or not dshape:
        return ""
    ncell = 1
    for s in dshape:
        ncell *= s
    csize = len(arr) // ncell
    used = set()
    for p in pts:
        lead = []
        if sparse:
            flat = 0
            for x, s in zip(p["sparse"], sparse, strict=True):
                flat = flat * s + x
            lead.append(idx[flat] % nadm)        # an excluded combination (-1) addresses the last row
        lead += p["dense"]
        cell = 0
        for x, s in zip(lead, dshape, strict=True):
            cell = cell * s + x
        used.add(cell)
    free = [c for c in range(ncell) if c not in used]
    if not free:
        return ""
    for c in r2.sample(free, max(1, len(free) // 2)):
        for j in r2.sample(range(csize), max(1, csize // 2)):
            arr[c * csize + j] = r2.choice([[-1, 0], [-1, 0], [1, 0], [0, 0]])
    return " non-finite entries in other discrete cells"


def make_cases(ctx, masks, n_random):
    """masks: TLC-enumerated (sshape, cshape, mask) triples; the indexer of each is read off the
    mask by the real create_indexers_and_segments in the driver? No: it is part of the *input* (ranks of
    the admitted states), produced here by counting -- its correctness is C17's business."""
    rng = ctx.rng("funcrep")
    cases = []

    def add(sparse, feasible, label):
        idx, r = [], 0
        for fz in feasible:
            idx.append(r if fz else -1)
            r += 1 if fz else 0
        if sparse and r == 0:
            return
        dense = [rng.choice([2, 3]) for _ in range(rng.choice([0, 0, 1, 2]))]
        ncont = rng.choice([0, 1, 1, 2, 3])
        log = rng.random() < 0.25
        cont = [cont_grid(rng, log and j == 0) for j in range(ncont)]
        shape = ([r] if sparse else []) + dense + [g["n"] for g in cont]
        size = 1
        for s in shape:
            size *= s
        if size > 400:
            return
        arr = [q(rng.randint(-8, 8)) for _ in range(size)]
        pts = points_for(rng, sparse, idx, dense, cont, 6)
        label += nonfinite_elsewhere(len(cases), arr, pts, sparse, idx, r, dense, cont)
        cases.append({"fn": "funcrep", "kind": label + (" log" if log and ncont else ""), "sparse": sparse, "indexer": idx, "nadm": r,
                      "dense": dense, "cont": cont, "arr": arr, "prefix": rng.choice(["", "next_"]),
                      "points": pts,
                      "tol": [1, 512] if (log and ncont) else EXACT,
                      # every fifth case in 64-bit mode with a float32 array and float64 evaluation points
                      "mixed": len(cases) % 5 == 4})

    for g in masks:
        ss, cs, mask = g["sshape"], g["cshape"], g["mask"]
        nch = 1
        for x in cs:
            nch *= x
        feas = [any(mask[k * nch:(k + 1) * nch]) for k in range(len(mask) // nch)]
        add(ss, feas, "restricted states")
    for _ in range(n_random):
        add([], [], "no restricted state")
    return cases


def run(ctx: Ctx) -> Result:
    res = Result(ctx.prop)
    mc = mc_or_die("MC_StateSpace", "MC_StateSpace.cfg")
    masks = [seqify(g) for g in tlc_cases("MC_StateSpace", "MC_StateSpace_gen.cfg")]
    rng = ctx.rng("pick")
    # every feasibility pattern of the restricted states occurs among the enumerated masks; keep one mask per pattern
    seen = {}
    for g in masks:
        nch = 1
        for x in g["cshape"]:
            nch *= x
        pat = (tuple(g["sshape"]), tuple(any(g["mask"][k * nch:(k + 1) * nch]) for k in range(len(g["mask"]) // nch)))
        seen.setdefault(pat, g)
    pats = list(seen.values())
    rng.shuffle(pats)
    reps = ctx.n(3, 30)
    cases = make_cases(ctx, pats * reps, ctx.n(150, 2000))
    for i, c in enumerate(cases):
        c["cid"] = i
    run_unit_cases(ctx, res, cases, chunk=40, sample_keys=("sparse", "indexer", "dense", "cont", "arr", "points"),
                   nontrivial=lambda c: bool(c["cont"]))
    res.merge_cov(states=mc["distinct"], transitions=mc["generated"], feasibility_patterns=len(pats),
                  samples=[{k: v for k, v in c.items() if k in ("sparse", "indexer", "dense", "cont", "points", "prefix")} for c in cases[:2]])
    finalize_units(res, "every feasibility pattern of 1-3 restricted states that occurs among the TLC-enumerated masks (<= 9 cells) x "
                        "random unrestricted discrete axes x 0-3 continuous axes (linear exact; 25% with a log axis, tolerance) x "
                        "random integer arrays; 6 evaluation points per case on nodes, inside cells and outside linear ranges; "
                        "non-trivial = at least one continuous axis")
    res.assumptions += [
        "TLC compares every returned value with TraceUnits!FuncRep = indexer look-up + discrete look-up + Interp!MapCoordinates at "
        "Interp!Coord; exact equality for linear grids with dyadic points, 2^-9 (1+|v|) with a log axis",
        "points whose restricted-state combination is excluded (indexer -1) are outside the property",
    ]
    return res
