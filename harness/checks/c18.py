"""C18 -- maximisers returned by the arg-max primitives attain the maximum."""
from __future__ import annotations

from .. import gen
from ..core import Ctx, Result
from ..mdl import q
from ..pipeline import mk_spec, qinit, run_pipeline
from ..unitlib import finalize_units, mc_or_die, run_unit_cases, seqify, tlc_cases

EXACT = [0, 1]
INEXACT = [1, 256]


def argmax_cases(ctx, gen_cases):
    rng = ctx.rng("argmax")
    cases = []
    for g in gen_cases:
        g = seqify(g)
        base = {"fn": "argmax", "shape": g["shape"], "a": g["a"], "has_where": g["has_where"],
                "where": g["where"] if g["has_where"] else [], "axes": g["axes"], "tol": EXACT}
        mode = rng.choice(["eager", "jit", "fused"])
        c = dict(base, mode=mode, kind=f"argmax {mode} exact")
        if mode == "fused":     # a = u + 0.5 * v exactly
            v = [rng.randint(-4, 4) for _ in g["a"]]
            c["v"] = v
            c["u"] = [x[0] / x[1] - 0.5 * y for x, y in zip(g["a"], v, strict=True)]
            c["beta"] = 0.5
        cases.append(c)
    return cases


def fused_inexact_cases(ctx, n):
    """The fusion pattern of entry_point: the array is u + beta * v computed inside the jitted function."""
    rng = ctx.rng("fused")
    cases = []
    shapes = [[2, 3], [3, 4], [2, 2, 3], [5], [4, 2]]
    for _ in range(n):
        shape = rng.choice(shapes)
        size = 1
        for s in shape:
            size *= s
        rank = len(shape)
        axes = rng.choice({1: [[0]], 2: [[0], [1], [0, 1]], 3: [[1, 2], [2], [0, 1, 2], [0, 2]]}[rank])
        has_where = rng.random() < 0.6
        where = [rng.random() < 0.6 for _ in range(size)] if has_where else []
        u = [rng.randint(-40, 40) / 8 for _ in range(size)]
        v = [rng.randint(-40, 40) / 8 for _ in range(size)]
        cases.append({"fn": "argmax", "kind": "argmax fused inexact", "shape": shape, "a": [q(0)] * size, "has_where": has_where,
                      "where": where, "axes": axes, "mode": "fused", "u": u, "v": v, "beta": rng.choice([0.95, 0.9, 0.3, 1.1]),
                      "tol": INEXACT})
    return cases


def neginf_cases(ctx, n):
    """Arrays that hold -inf (the value lcm gives to infeasible states and what it passes as `initial' together with a mask): slices
    whose admissible elements are ALL -inf still have an admissible maximiser -- the first admissible position, not position 0."""
    rng = ctx.rng("neginf")
    cases = []
    shapes = [[2], [3], [4], [2, 2], [2, 3], [3, 2], [2, 2, 2]]
    for i in range(n):
        shape = rng.choice(shapes)
        size = 1
        for s in shape:
            size *= s
        rank = len(shape)
        axes = rng.choice({1: [[0]], 2: [[0], [1], [0, 1], [1, 0]], 3: [[1, 2], [2], [0, 1, 2], [0, 2], [2, 0]]}[rank])
        where = [rng.random() < 0.55 for _ in range(size)]
        a = [rng.choice([[-1, 0], [-1, 0], q(0), q(1)]) for _ in range(size)]
        if i % 2 == 0:      # every admissible element is -inf, inadmissible ones are anything
            a = [[-1, 0] if w else x for x, w in zip(a, where, strict=True)]
        cases.append({"fn": "argmax", "kind": "argmax with -inf entries", "shape": shape, "a": a, "has_where": True, "where": where,
                      "axes": axes, "mode": "jit" if i % 3 == 0 else "eager", "tol": EXACT})
    return cases


def compositions(rng, n):
    lens = []
    left = n
    while left > 0:
        k = rng.randint(1, left)
        lens.append(k)
        left -= k
    return lens


def seg_cases(ctx, n):
    rng = ctx.rng("seg")
    cases = []
    for i in range(n):
        nrows = rng.randint(1, 5 if not ctx.thorough else 7)
        rest = rng.choice([[], [2], [3], [2, 2]])
        size = nrows
        for s in rest:
            size *= s
        data = [q(rng.randint(0, 2)) for _ in range(size)]
        cases.append({"fn": "segargmax", "kind": "segment_argmax", "shape": [nrows, *rest], "data": data,
                      "lens": compositions(rng, nrows), "mode": "jit" if i % 3 == 0 else "eager", "tol": EXACT})
    return cases


def reduce_cases(ctx, n):
    rng = ctx.rng("reduce")
    cases = []
    for i in range(n):
        has_rows = rng.random() < 0.6
        nd = rng.randint(0 if has_rows else 1, 3)
        is_choice = [rng.random() < 0.5 for _ in range(nd)]
        is_cont = [(not ch) and rng.random() < 0.3 for ch in is_choice]
        # continuous states come last (the layout contract); keep discrete ones interleaved
        order = sorted(range(nd), key=lambda k: is_cont[k])
        is_choice = [is_choice[k] for k in order]
        is_cont = [is_cont[k] for k in order]
        sizes = [rng.choice([2, 3]) for _ in range(nd)]
        nrows = rng.randint(1, 5)
        sparse_choice = rng.random() < 0.6      # otherwise: restricted states only, one row per admitted state
        shape = ([nrows] if has_rows else []) + sizes
        size = 1
        for s in shape:
            size *= s
        cases.append({"fn": "reduce", "kind": "get_solve_discrete_problem", "shape": shape,
                      "cc": [q(rng.randint(-3, 3)) for _ in range(size)], "has_rows": has_rows, "is_choice": is_choice,
                      "is_cont": is_cont, "lens": (compositions(rng, nrows) if sparse_choice else [1] * nrows) if has_rows else [],
                      "sparse_choice": sparse_choice,
                      "is_last": rng.random() < 0.3, "mode": "jit" if i % 3 == 0 else "eager", "tol": EXACT})
    return cases


# the arg-max primitives inside lcm's own fused computation (utility + beta * E[V] built in the same jitted function), in
# float64 mode, with objective values that differ by less than the resolution of float32: exact in float64, so the selected
# choices must attain the maximum exactly (tolerance 0)
X64 = [
    ("x64 ties: continuous + unrestricted discrete choice", {"p_r": 0.0, "p_a": 1.0, "p_b": 0.5, "p_w": 1.0, "p_c": 1.0, "sizes": {"c": 5}}),
    ("x64 ties: restricted + unrestricted discrete choice", {"p_r": 1.0, "p_b": 1.0, "p_w": 0.5, "p_c": 0.5, "all_admitted": True}),
    ("x64 ties: discrete choices only", {"p_r": 0.5, "p_b": 1.0, "p_w": 0.0, "p_z": 0.0, "p_h": 1.0}),
]


def x64_specs(ctx, n):
    rng = ctx.rng("x64")
    specs = []
    for i in range(n):
        label, prof = X64[i % len(X64)]
        m = gen.rand_model(rng, {**prof, "x64_ties": True, "p_near_tie": 1.0, "T": [1], "p_log": 0.0, "p_undefined_outside": 0.0,
                                 "p_quadratic": 0.0, "max_cells": 800})
        init = qinit(gen.rand_initial_states(rng, m, rng.choice([2, 4]), on_grid=i % 2 == 0))
        plan = [{"op": "solve", "jit": i % 4 != 3},
                {"op": "simulate", "target": "solve_and_simulate" if i % 2 else "simulate", "init": init, "seed": i,
                 "vsrc": "own" if i % 2 else "given", "jit": i % 4 != 3, "record_steps": True}]
        specs.append(mk_spec(10**6 + i, m, ["solve", "c02"], plan, label=label))
    return specs


def run(ctx: Ctx) -> Result:
    res = Result(ctx.prop)
    sfx = "_thorough" if ctx.thorough else ""
    mc = mc_or_die("MC_Argmax", f"MC_Argmax{sfx}.cfg")
    gen_cases = tlc_cases("MC_Argmax", f"MC_Argmax_gen{sfx}.cfg")
    if ctx.thorough and len(gen_cases) > 160000:
        rng = ctx.rng("sample")
        rng.shuffle(gen_cases)
        gen_cases = gen_cases[:160000]
    cases = argmax_cases(ctx, gen_cases)
    cases += fused_inexact_cases(ctx, ctx.n(600, 6000))
    cases += neginf_cases(ctx, ctx.n(300, 3000))
    cases += seg_cases(ctx, ctx.n(600, 6000))
    cases += reduce_cases(ctx, ctx.n(500, 5000))
    for i, c in enumerate(cases):
        c["cid"] = i
    run_unit_cases(ctx, res, cases, chunk=500, sample_keys=("fn", "shape", "a", "where", "axes", "data", "lens", "cc", "is_choice", "u", "v", "mode"),
                   nontrivial=lambda c: (c["fn"] != "argmax") or c["has_where"] or len(set(map(tuple, c["a"]))) < len(c["a"]))
    xs = x64_specs(ctx, ctx.n(24, 300))
    run_pipeline(ctx, res, xs)
    res.merge_cov(states=mc["distinct"], transitions=mc["generated"], mc_states=mc["distinct"], enumerated_argmax_cases=len(gen_cases),
                  exhaustive=False,
                  samples=[{k: v for k, v in c.items() if k in ("fn", "shape", "a", "where", "axes", "mode", "lens", "is_choice")} for c in (cases[0], cases[-1])])
    finalize_units(res, "argmax: every array over {0,1,2} x every mask (or none) x every ordered axes subset for shapes with <= 4 "
                        "(thorough: 6) cells, enumerated by TLC, each run eagerly, jitted or fused (u + beta*v inside the jitted "
                        "function); plus seeded fused-inexact arrays, segment_argmax over every kind of segmentation, and "
                        "get_solve_discrete_problem over dense/sparse axis patterns; plus whole one-period models run with jax_enable_x64 "
                        "whose objective values differ by less than float32 resolution (level 2^23, premia 1/8 and 1/4): the arg-max "
                        "primitives inside lcm's own fused computation, judged without tolerance; non-trivial = a tie or a mask")
    res.assumptions += [
        "x64 pipeline cases: TracePipeline (groups solve, c02) with tolerance 0 -- all values are dyadic with at most 27 significant bits",
        "MC_Argmax: the implementation-shaped ImplArgmaxAt satisfies the declarative clause for every enumerated case",
        "TV: TLC evaluates Argmax!ArgmaxClause / SegArgmaxClause / ReduceSpec on the recorded outputs; the inexact fused cases "
        "are judged on values (within 2^-8 (1+|v|)), never on arg-max identity",
    ]
    return res
