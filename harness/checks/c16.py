"""C16 -- a grid is either rejected or materialises exactly as specified."""
from __future__ import annotations

from ..core import Ctx, Result
from ..unitlib import finalize_units, mc_or_die, run_unit_cases, seqify, tlc_cases

TOL = [1, 2048]
CATEGORY = ["codes2", "codes3", "codes1", "floats", "bools", "gap", "permuted", "dup", "from1", "negative", "half", "nonnum",
            "missing", "plain", "instance", "classvar_valid", "classvar_invalid", "initvar_trailing",
            "codes4", "codes5", "half_in", "frac_in", "nan_in", "swap_in", "dup_in", "skip_in", "inf_end"]
EITHER = {"instance"}      # a dataclass *instance*: the wording of the property does not decide it


def random_valid(ctx, n):
    """Seeded valid specifications of many sizes and magnitudes (accepted -> laws must hold).  Only grids
    that float32 can resolve: step >= 2^-9 * max(|start|, |stop|) (an unresolvable one is known finding D4b)."""
    rng = ctx.rng("valid")
    cases = []
    while len(cases) < n:
        kind = rng.choice(["lin", "log"])
        npts = rng.choice([1, 2, 3, 4, 5, 7, 10, 17, 33, 100])
        if kind == "lin":
            start = rng.choice([-1e4, -37.5, -1.0, 0, 0.001, 2, 1e3]) * rng.choice([1, 1, 3])
            stop = start + rng.choice([1e-3, 0.5, 1, 10, 123.25, 1e5])
            if npts >= 2 and (stop - start) / (npts - 1) < max(abs(start), abs(stop)) / 512:
                continue
        else:
            start = rng.choice([1e-3, 0.1, 0.5, 1, 2, 7.5, 100.0])
            stop = start * rng.choice([1.5, 2, 10, 1000.0])
            if npts >= 2 and (stop / start) ** (1.0 / (npts - 1)) < 1 + 1 / 512:
                continue
        if rng.random() < 0.3:
            start, stop = (int(start) if float(start).is_integer() else start), (int(stop) if float(stop).is_integer() else stop)
        cases.append({"fn": "grid", "kind": kind, "s": repr(start), "e": repr(stop), "n": repr(npts), "values": [start, stop, npts],
                      "must_reject": False, "must_accept": False, "nval": npts, "tol": TOL, "label": "seeded valid specification"})
        # every log specification is also materialised as a linear grid with the very same (start, stop, n_points), and vice
        # versa where the bounds allow it, back to back in the same process: the two classes must not share anything
        if kind == "log" and npts >= 3 and len(cases) < n:
            cases.append({**cases[-1], "kind": "lin", "label": "same bounds as the preceding log grid"})
        elif kind == "lin" and start > 0 and npts >= 3 and (stop / start) ** (1.0 / (npts - 1)) >= 1 + 1 / 512 and len(cases) < n:
            cases.append({**cases[-1], "kind": "log", "label": "same bounds as the preceding linear grid"})
    return cases


def special_bounds():
    """Valid specifications whose bounds stand in a special relation -- symmetric around zero, one bound zero, reciprocal bounds of
    a log grid, integer powers -- for even and odd numbers of points (1, 2 included)."""
    cases = []
    for npts in (1, 2, 3, 4, 5, 6, 9, 10, 16, 33):
        for kind, start, stop in [("lin", -1, 1), ("lin", -2.5, 2.5), ("lin", -100.0, 100.0), ("lin", 0, 1), ("lin", -3, 0), ("lin", -1, 2), ("lin", 1, 2),
                                  ("log", 0.5, 2), ("log", 0.1, 10.0), ("log", 1, 8), ("log", 1, 1000.0), ("log", 0.25, 1)]:
            cases.append({"fn": "grid", "kind": kind, "s": repr(start), "e": repr(stop), "n": repr(npts), "values": [start, stop, npts],
                          "must_reject": False, "must_accept": False, "nval": npts, "tol": TOL, "label": "bounds in a special relation"})
    return cases


KNOWN_INPUTS = {        # id in known_findings.json -> the exact constructor input
    "D4b-resolution": ("lin", 1.0, 1.0 + 1e-12, 3),
    "D4b-overflow": ("lin", 0.0, 1e308, 2),
    "D4b-underflow": ("log", 1e-320, 1.0, 3),
}


def known_findings(ctx, res):
    from .. import tlc, units
    from ..core import add_violation, load_known

    ents = {k["id"]: k for k in load_known(ctx.prop) if k["status"] == "known"}
    cases = []
    for kid, (kind, s, e, n) in KNOWN_INPUTS.items():
        if kid in ents:
            cases.append({"cid": 10**6 + len(cases), "fn": "grid", "kind": kind, "s": repr(s), "e": repr(e), "n": repr(n), "values": [s, e, n],
                          "must_reject": False, "must_accept": False, "nval": n, "tol": TOL, "kid": kid})
    if not cases:
        return
    done = units.run_units(cases, nproc=1)
    verdicts, _ = tlc.validate_traces("TraceUnits", done, nproc=1)
    for c in done:
        v = verdicts[c["cid"]]["v"]
        ent = ents[c["kid"]]
        if v[0] == "FAIL":
            if v[1] == ent["match"]["clause"] and ent["match"]["law"] in v[2]:
                res.known.append(f"{c['kid']}: {c['kind']} grid start={c['s']} stop={c['e']} n_points={c['n']}: {ent['match']['law']}")
            else:
                add_violation(ctx, res, v[1], {"kind": "unit", "property": ctx.prop, "case": c, "verdict": verdicts[c["cid"]]},
                              f"known input {c['kid']} fails differently: {v[2][:200]}")


def run(ctx: Ctx) -> Result:
    res = Result(ctx.prop)
    mc = mc_or_die("MC_Grids", "MC_Grids.cfg", workers=4)
    gen = [seqify(g) for g in tlc_cases("MC_Grids", "MC_Grids_gen.cfg")]
    cases = [{"fn": "grid", "kind": g["kind"], "s": g["s"], "e": g["e"], "n": g["n"], "must_reject": g["must_reject"],
              "must_accept": g["must_accept"], "nval": g["nval"], "tol": TOL, "label": "input classes"} for g in gen]
    cases += random_valid(ctx, ctx.n(300, 5000))
    cases += special_bounds()
    cases += [{"fn": "dgrid", "cls": c, "either": c in EITHER, "label": "category classes"} for c in CATEGORY]
    for i, c in enumerate(cases):
        c["cid"] = i
    run_unit_cases(ctx, res, cases, chunk=500, sample_keys=("fn", "kind", "s", "e", "n", "cls"), nontrivial=lambda c: True)
    known_findings(ctx, res)
    res.merge_cov(states=mc["distinct"], transitions=mc["generated"], input_class_combinations=len(gen), exhaustive=True,
                  samples=[{k: v for k, v in c.items() if k in ("fn", "kind", "s", "e", "n", "must_reject", "cls")} for c in (cases[0], cases[4000], cases[-1])])
    finalize_units(res, "TLC enumerates all 2 x 17 x 17 x 10 combinations of abstract input classes (signs, zero, equal/reversed "
                        "bounds, nan/inf, bool, numpy scalars, str/None/list; n_points 0,1,2,3,5,-1,float,bool,str,None) with the "
                        "specification's decision; plus seeded valid specifications of 1-100 points over six orders of magnitude "
                        "and 15 category classes; every case counts as non-trivial")
    res.assumptions += [
        "must-reject inputs must raise GridInitializationError (any other exception is a violation); accepted inputs must satisfy "
        "Grids!GridLawsClause on normalised observations ((g[0]-start)/scale, step ratios) within 2^-11",
        "bool and numpy scalars may be accepted or rejected; if accepted the laws must hold",
        "rejecting a valid specification is not a violation of C16 as worded (the repository's unit tests cover acceptance)",
    ]
    return res
