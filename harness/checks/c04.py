"""C04 -- stochastic draws: specified probabilities, independent, seed-reproducible."""
from __future__ import annotations

from fractions import Fraction as F

from .. import gen, keys, tlc
from ..core import Ctx, Result, add_violation
from ..mdl import mkfunc, mkvar, q, var, add, mul, const
from ..pipeline import finalize_cov, mk_spec, qinit, run_pipeline

STOCH = {"p_h": 1.0, "p_h_stoch": 1.0, "T": [2, 3, 4], "p_z": 0.0, "max_cells": 500}


def key_specs(ctx, n):
    rng = ctx.rng("keys")
    specs = []
    for i in range(n):
        prof = dict(STOCH, p_e=[0.0, 1.0, 0.5][i % 3])
        m = gen.rand_model(rng, prof)
        na = rng.choice([1, 2, 3])
        specs.append({"cid": i, "mdl": m, "init": qinit(gen.rand_initial_states(rng, m, na)),
                      "seed": [0, 2**31 - 1][(i // 5) % 2] if i % 5 == 4 else rng.randrange(10**6), "eager": i % 2 == 0})
    return specs


def stats_model(rng, T, two, dead=False):
    """Small discrete model with stochastic state h (3 labels, row depends on h, choice a and the period) and, optionally, a second
    stochastic state e (2 labels) whose row depends on the choice only (so its draws are i.i.d. given the choice)."""
    vars_ = [mkvar("h", "state", "disc", 3), mkvar("a", "choice", "disc", 2)]
    uargs = ["h", "a"]
    uexpr = add(mul(const(rng.randint(-2, 2)), var("h")), mul(const(rng.randint(-1, 1)), var("a")))
    funcs = [mkfunc("next_h", "stoch", ["a", "h", "_period"], state="h")]
    shocks = {"h": [[[[q(x) for x in gen.rand_row(rng, 3)] for _ in range(T)] for _ in range(3)] for _ in range(2)]}
    if two:
        vars_.append(mkvar("e", "state", "disc", 2))
        uargs.append("e")
        uexpr = add(uexpr, mul(var("e"), var("a")))
        funcs.append(mkfunc("next_e", "stoch", ["a"], state="e"))
        shocks["e"] = [[q(x) for x in gen.rand_row(rng, 2)] for _ in range(2)]
    funcs.append(mkfunc("utility", "utility", uargs, uexpr))
    if dead:
        # agents in the last label of h have NO admissible choice (value -inf, the reported choice is arbitrary): their states still
        # follow the law of motion, and their draws are draws like any other
        funcs.append(mkfunc("alive_constraint", "constraint", ["h"], ["le", var("h"), const(1)]))
    rng.shuffle(vars_)
    rng.shuffle(funcs)
    params = {"beta": q(F(1, 2)), "shocks": shocks}
    for f in funcs:
        params.setdefault(f["name"], {})
    return {"T": T, "vars": vars_, "funcs": funcs, "params": params, "meta": {"feat": {"stoch": True}, "admitted": None, "inexact": False}}


def stats_specs(ctx, n):
    rng = ctx.rng("stats")
    specs = []
    for i in range(n):
        T = rng.choice([3, 4, 5])
        m = stats_model(rng, T, two=i % 2 == 0, dead=i % 4 == 1)
        N = rng.choice([4000, 6000, 8000]) if i else 24000      # one large panel: effects that grow with the agent index
        init = {v["name"]: [q(rng.randrange(v["n"])) for _ in range(N)] for v in m["vars"] if v["role"] == "state"}
        specs.append({"cid": i, "mdl": m, "init": init, "N": N, "seed": rng.randrange(10**6), "min_cell": 40})
    return specs


def repro_specs(ctx, n):
    """same seed -> identical frames; another seed -> identical period 0."""
    rng = ctx.rng("repro")
    specs = []
    for i in range(n):
        m = gen.rand_model(rng, dict(STOCH, p_e=0.5))
        na = rng.choice([2, 5, 9])
        init = qinit(gen.rand_initial_states(rng, m, na))
        s1, s2 = rng.randrange(10**6), rng.randrange(10**6)
        if i % 3 == 0:      # the ends of the seed range: 0 is a seed like any other
            s1 = [0, 2**31 - 1, 1][(i // 3) % 3]
        if i % 8 == 5:      # no seed passed at all: the default seed applies both times
            s1 = None
        tgt = "solve_and_simulate" if i % 2 else "simulate"
        sim = lambda seed: {"op": "simulate", "target": tgt, "init": init, "seed": seed, "vsrc": "own"}  # noqa: E731
        plan = [sim(s1), sim(s1), {"op": "rel-sim", "a": 1, "b": 2, "map": list(range(na)), "scope": "all", "what": "same-seed-different-frame"},
                sim(s2), {"op": "rel-sim", "a": 1, "b": 4, "map": list(range(na)), "scope": "period0", "what": "period0-depends-on-seed"}]
        specs.append(mk_spec(i, m, ["c03"], plan, reltol=[0, 1], label="reproducibility"))
    return specs


def run(ctx: Ctx) -> Result:
    res = Result(ctx.prop)
    # (1) key discipline: the specification itself, then the recorded keys
    mc = tlc.model_check("MC_Keys", cfg="MC_Keys.cfg", workers=4)
    if not mc["ok"]:
        raise tlc.MachineryError("MC_Keys failed\n" + mc["out"][-1500:])
    if ctx.thorough:
        # the key discipline inside the whole forward loop (spec/MC_Panel.tla): keys are split in every period, the last one
        # included, every agent draws exactly once per period and variable with a key nobody else uses, period 0 is decided
        # before any key is consumed; the variant that splits the carried key without replacing it must be refuted
        from ..unitlib import mc_must_fail, mc_or_die

        mcp = mc_or_die("MC_Panel", "MC_Panel_quick.cfg", workers=16)
        res.merge_cov(mc_panel_states=mcp["distinct"])
        mc_must_fail("MC_Panel", "MC_Panel_neg_keys.cfg", "NoKeyReuse", workers=8)
        res.notes.append("MC_Panel_quick.cfg: no error; MC_Panel_neg_keys.cfg (carried key not advanced) refuted by NoKeyReuse")
    # unbounded: Apalache proves the inductive invariant of the key discipline for arbitrary numbers of periods,
    # stochastic variables and agents (spec/apalache/KeysInd.tla)
    import subprocess
    from ..tlc import SPEC

    ap = subprocess.run([str(SPEC / "apalache" / "KeysIndStep.sh")], capture_output=True, text=True, check=False, timeout=3000)
    if ap.returncode != 0 or ap.stdout.count("EXITCODE: OK") != 3:
        raise tlc.MachineryError("Apalache did not prove the inductive invariant of spec/apalache/KeysInd.tla:\n" + ap.stdout[-800:] + ap.stderr[-400:])
    res.merge_cov(apalache_obligations_discharged=3)
    kspecs = key_specs(ctx, ctx.n(16, 120))
    traces = keys.run_many("keys", kspecs)
    for t in traces:
        if t["error"]:
            add_violation(ctx, res, "crash", {"kind": "keys", "trace": t}, f"keys case {t['cid']}: {t['cls']} {t['msg']}")
    good = [t for t in traces if not t["error"]]
    kv, kst = tlc.validate_traces("TraceKeys", good)
    k_ok = 0
    by = {s["cid"]: s for s in kspecs}
    for t in good:
        v = kv[t["cid"]]
        if v["v"][0] == "ok":
            k_ok += 1
        elif v["v"][0] == "FAIL":
            add_violation(ctx, res, v["v"][1], {"kind": "keys", "property": ctx.prop, "spec": by[t["cid"]], "trace": t, "verdict": v},
                          f"keys case {t['cid']} (eager={t['eager']}): {v['v'][2][:300]}")
    # (2) frequencies and independence
    sspecs = stats_specs(ctx, ctx.n(8, 80))
    sc = keys.run_many("stats", sspecs, chunk=1)
    for c in sc:
        if c["error"]:
            add_violation(ctx, res, "crash", {"kind": "stats", "case": {k: v for k, v in c.items() if k != "cells"}}, f"stats case {c['cid']}: {c['cls']} {c['msg']}")
    sgood = [c for c in sc if not c["error"]]
    sv, sst = tlc.validate_traces("TraceStats", sgood)
    s_ok = 0
    ncells = 0
    conds = {}
    for c in sgood:
        v = sv[c["cid"]]
        ncells += len(c["cells"])
        for cell in c["cells"]:
            conds[cell["cond"]] = conds.get(cell["cond"], 0) + 1
        if v["v"][0] == "ok":
            s_ok += 1
        elif v["v"][0] == "FAIL":
            add_violation(ctx, res, v["v"][1], {"kind": "stats", "property": ctx.prop, "case": c, "verdict": v},
                          f"stats case {c['cid']} (N={c['N']}, seed={c['seed']}): {v['v'][2][:300]}")
    # (3) reproducibility, on recorded frames
    run_pipeline(ctx, res, repro_specs(ctx, ctx.n(16, 150)), nontrivial=lambda s: True)
    res.merge_cov(evaluations=len(kspecs) + len(sspecs), traces_validated_against_impl=k_ok + s_ok, key_traces=len(kspecs), key_traces_ok=k_ok,
                  eager_key_traces=sum(1 for s in kspecs if s["eager"]), stat_panels=len(sspecs), stat_panels_ok=s_ok, stat_cells=ncells,
                  stat_cells_by_conditioning=conds, states=kst["distinct"] + sst["distinct"] + mc["distinct"],
                  transitions=kst["generated"] + sst["generated"] + mc["generated"], mc_states=mc["distinct"])
    finalize_cov(res, "(1) key traces: seeded stochastic models (1-2 stochastic states, T 2-4, 1-3 agents), half of them run eagerly so "
                      "that the per-agent draw keys are recorded; (2) panels of 4000-8000 agents of a discrete model with row-dependent "
                      "transitions (zeros and degenerate rows included): counts per transition row, also conditional on the neighbour's, "
                      "the previous and another variable's draw; (3) pairs of runs with the same / another seed; non-trivial = all")
    res.coverage["distinct_nontrivial"] = res.coverage.get("distinct_nontrivial", 0) + len(kspecs) + len(sspecs)
    res.assumptions += [
        "Apalache: Init => IndInv, IndInv /\\ Next => IndInv', IndInv => NoKeyReuse for ARBITRARY NPeriods, NVars, NAgents (keys coded "
        "by their position <<period, variable>> in the split tree); TLC (MC_Keys) checks the path-level module Keys for 4 x 3 x 3",
        "trusted: jax.random.split yields independent streams for distinct keys and jax.random.choice samples the distribution it "
        "is given; the key clauses (TraceKeys) establish that lcm uses every key once and hands distinct keys to periods, variables, agents",
        "frequencies: exact-integer 6-sigma acceptance region evaluated by TLC (TraceStats!CountOK) against the rows of the "
        "specification (Bellman!ShockRow, signature order); a zero-probability label must never occur; fixed seeds make the run deterministic",
        "reproducibility: identical frames for equal seeds, identical period-0 rows for different seeds (TracePipeline!RelSimFail, bitwise)",
    ]
    return res
