"""C11 -- the solution obeys the algebraic laws of finite-horizon dynamic programming."""
from __future__ import annotations

from fractions import Fraction as F

from .. import gen, laws
from ..core import Ctx, Result
from ..lawlib import mk_pair, run_pairs
from ..mdl import add, const, mkfunc, mkvar, mul, q, var
from ..pipeline import finalize_cov

SMALL = {"max_cells": 600, "p_z": 0.1, "p_log": 0.0}


def small_specs(ctx, n):
    rng = ctx.rng("small")
    specs = []
    i = 0
    while len(specs) < n:
        i += 1
        kind = i % 4
        if kind == 0:
            # every other affine pair on a model with dead-end states (no feasible choice: value -inf, which the law maps to -inf)
            dead = (i // 4) % 3 != 0
            prof = {**SMALL, "T": [2, 3]}
            if dead:
                # the dead-end label (h = 2) is reachable through next_h = min(2, max(h, choice)) because the choices have 3 labels;
                # beta and b are non-zero so that the law separates "-inf continuation" from "no continuation"
                prof.update(p_w=0.0, p_z=0.0, p_h=1.0, p_h_stoch=0.0, p_dead_label=1.0, p_a=1.0, sizes={"h": 3, "a": 3, "b": 3},
                            betas=[F(1, 2), F(3, 4), F(1)])
            m = gen.rand_model(rng, prof)
            mm, a, b = laws.affine(rng, m)
            while dead and b == 0:
                mm, a, b = laws.affine(rng, m)
            specs.append(mk_pair(len(specs), "affine", m, mm, a=a, b=b, label="small" + ("; dead-end states" if dead else "")))
        elif kind == 1:
            m = laws.with_beta(gen.rand_model(rng, {**SMALL, "T": [2, 3, 4]}), 0)
            t = rng.randrange(m["T"] - 1)
            specs.append(mk_pair(len(specs), "beta-zero", m, laws.with_horizon(m, t + 1), pairs=[[t, t]], label=f"small; period {t}"))
        elif kind == 2:
            m = gen.rand_model(rng, {**SMALL, "T": [1, 2, 3], "no_period": True})
            k = rng.choice([1, 2])
            specs.append(mk_pair(len(specs), "horizon-shift", m, laws.with_horizon(m, m["T"] + k),
                                 pairs=[[t, t + k] for t in range(m["T"])], label=f"small; k={k}"))
        else:
            m = gen.rand_model(rng, {**SMALL, "T": [2, 3], "p_h": 1.0, "p_h_stoch": 1.0, "onehot": "always", "p_e": 0.7, "max_cells": 900})
            rows_ok = True
            try:
                mm = laws.degenerate_to_deterministic(m)
            except AssertionError:
                rows_ok = False
            if rows_ok:
                specs.append(mk_pair(len(specs), "degenerate-stochastic", m, mm, label="small"))
    # affine pairs on models whose utility is INTEGER-TYPED (discrete-only, integer tables, no own parameter, no auxiliary function
    # with a parameter) while beta is not an integer; the transformed utility is integer-typed for integer a, b and float otherwise
    r2 = ctx.rng("integer-utility")
    for j in range(max(3, n // 16)):
        m = gen.rand_model(r2, {**SMALL, "T": [2, 3], "p_w": 0.0, "p_z": 0.0, "p_h": 1.0, "p_two_params": 0.0, "p_param_only_aux": 0.0,
                                "p_reduction_aux": 0.0, "p_near_tie": 0.0, "p_undefined_outside": 0.0, "p_beta_outside": 0.0,
                                "betas": [F(1, 2), F(3, 4), F(1, 4)]})
        mm, a, b = laws.affine(r2, m)
        while b == 0 or (j % 2 == 0 and (a.denominator != 1 or b.denominator != 1)):     # even j: integer a and b
            mm, a, b = laws.affine(r2, m)
        specs.append(mk_pair(len(specs), "affine", m, mm, a=a, b=b, label="small; integer-typed utility"))
    # the FILTER-RESTRICTED states made stochastic with one-hot rows: labels of probability zero include states the filter excludes
    r3 = ctx.rng("restricted-state-degenerate")
    k = 0
    while k < max(4, n // 12):
        m = gen.rand_model(r3, {**SMALL, "T": [2, 3], "p_r": 1.0, "p_per_filter": 0.5, "p_h_stoch": 0.0, "p_e": 0.0, "p_z": 0.0})
        ms = laws.deterministic_to_degenerate(m)
        if ms is not None:
            specs.append(mk_pair(len(specs), "degenerate-stochastic", ms, m, label="small; restricted state with one-hot stochastic transition"))
            k += 1
    return specs


def big_model(rng, nw, nc, T, stoch, beta):
    """Consumption/saving model with nw wealth nodes and nc consumption nodes (far beyond what TLC can solve)."""
    vars_ = [mkvar("w", "state", "lin", nw, 0, (nw - 1) // 4), mkvar("h", "state", "disc", 2),
             mkvar("a", "choice", "disc", 2), mkvar("c", "choice", "lin", nc, 0, (nc - 1) // 4)]
    tab = [[q(rng.randint(-4, 4)) for _ in range(2)] for _ in range(2)]
    funcs = [mkfunc("utility", "utility", ["c", "w", "h", "a", "k"],
                    add(mul(var("c"), ["sub", const(rng.randint(3, 6)), mul(const(F(1, 4)), var("c"))]), add(mul(var("w"), var("k")), ["tab", ["h", "a"], tab]))),
             mkfunc("next_w", "next", ["w", "c", "a"], add(["sub", var("w"), var("c")], mul(const(F(1, 2)), var("a")))),
             mkfunc("bc_constraint", "constraint", ["c", "w"], ["le", var("c"), var("w")])]
    params = {"beta": q(beta), "utility": {"k": q(F(1, 4))}, "next_w": {}, "bc_constraint": {}, "next_h": {}}
    if stoch:
        funcs.append(mkfunc("next_h", "stoch", ["h", "a"], state="h"))
        params["shocks"] = {"h": [[[q(1), q(0)] if rng.random() < 0.5 else [q(0), q(1)] for _ in range(2)] for _ in range(2)]}
    else:
        funcs.append(mkfunc("next_h", "next", ["h", "a"], ["max", var("h"), var("a")]))
    return {"T": T, "vars": vars_, "funcs": funcs, "params": params,
            "meta": {"feat": {"big": True}, "admitted": None, "inexact": beta not in (F(0), F(1), F(1, 2), F(3, 4))}}


def big_specs(ctx, n):
    rng = ctx.rng("big")
    specs = []
    tol = [1, 256]
    for i in range(n):
        nw = rng.choice([65, 129, 257, 513])
        nc = rng.choice([33, 65, 129])
        T = rng.choice([3, 4, 5])
        beta = rng.choice([F(1, 2), F(3, 4), F(7, 8), F(15, 16)])      # dyadic: the geometric sum stays small for TLC
        kind = i % 4
        if (i // 4) % 2 == 1 and kind in (0, 2):
            # long horizons (more than 10 periods); beta in {1/2, 1} keeps beta^k within TLC's 32-bit integers
            T = rng.choice([11, 12, 13])
            nw, nc = 65, 33
            beta = rng.choice([F(1, 2), F(1)])
        if kind == 0:
            m = big_model(rng, nw, nc, T, False, beta)
            mm, a, b = laws.affine(rng, m)
            specs.append(mk_pair(len(specs), "affine", m, mm, a=a, b=b, flat=True, tol=tol, label=f"large: {nw}x2 states, {nc}x2 choices, T={T}"))
        elif kind == 1:
            m = big_model(rng, nw, nc, T, False, F(0))
            t = rng.randrange(T - 1)
            specs.append(mk_pair(len(specs), "beta-zero", m, laws.with_horizon(m, t + 1), pairs=[[t, t]], flat=True, tol=tol,
                                 label=f"large: {nw}x2 states, T={T}, period {t}"))
        elif kind == 2:
            m = big_model(rng, nw, nc, T, False, beta)
            k = rng.choice([1, 2])
            specs.append(mk_pair(len(specs), "horizon-shift", m, laws.with_horizon(m, T + k), pairs=[[t, t + k] for t in range(T)],
                                 flat=True, tol=tol, label=f"large: {nw}x2 states, T={T}, k={k}"))
        else:
            m = big_model(rng, nw, nc, T, True, beta)
            specs.append(mk_pair(len(specs), "degenerate-stochastic", m, laws.degenerate_to_deterministic(m), flat=True, tol=tol,
                                 label=f"large: {nw}x2 states, T={T}"))
    # one continuous state grid with more nodes than 2^16 (positions, ranks and flat indices beyond 16 bits)
    r2 = ctx.rng("very-long-grid")
    for _ in range(max(1, n // 40)):
        nw = r2.choice([70001, 66001])
        m = big_model(r2, nw, 5, 2, False, r2.choice([F(1, 2), F(3, 4)]))
        specs.append(mk_pair(len(specs), "horizon-shift", m, laws.with_horizon(m, 3), pairs=[[0, 1], [1, 2]], flat=True, tol=tol,
                             label=f"very long grid: {nw}x2 states, T=2, k=1"))
    return specs


def run(ctx: Ctx) -> Result:
    res = Result(ctx.prop)
    specs = small_specs(ctx, ctx.n(48, 500)) + big_specs(ctx, ctx.n(16, 120))
    for i, s in enumerate(specs):
        s["cid"] = i
    run_pairs(ctx, res, specs, nontrivial=lambda s: s["m1"]["T"] >= 2 or s["m2"]["T"] >= 2)
    finalize_cov(res, "pairs (model, transformed model) for the four laws: utility -> a u + b (a in {1/4,1/2,2,3}); beta = 0 vs the "
                      "model truncated after period t; horizons T and T+k for period-independent models; one-hot stochastic "
                      "transition vs deterministic table. Small seeded random models (also solved by the specification) and large "
                      "models with 65-513 x 2 states and 33-129 x 2 choices per period (compared entry by entry); non-trivial = T >= 2")
    res.assumptions += [
        "TLC checks V2[t2] = a V1[t1] + b sum_k beta^k (Relations!Expected) on the two recorded solutions; for small models "
        "through the layout of each model, for large models on the flat arrays (same layout, no restricted state)",
        "large models use a tolerance of 2^-8 (1+|v|); the small ones 2^-12 (exact family)",
    ]
    return res
