"""C17 -- the state-choice space contains exactly the filter-passing combinations."""
from __future__ import annotations

from .. import gen, tlc, units
from ..core import Ctx, Result
from ..unitlib import run_unit_cases
from ..tlc import MachineryError


def extras_forward_mask(ctx, res):
    """Beyond the listed properties (DESIGN.md section 10): lcm.state_space.create_forward_mask against
    StateSpace!ForwardMask on seeded cases.  Reported in the evidence only; never a violation of C17."""
    from .. import tlc, units
    from ..mdl import q

    rng = ctx.rng("fwdmask")
    cases = []
    for i in range(ctx.n(40, 400)):
        nst = rng.randint(1, 3)
        states = [f"s{k}" for k in range(nst)]
        choices = [f"a{k}" for k in range(rng.randint(0, 2))]
        names = states + choices
        sizes = [rng.randint(2, 4) for _ in names]
        rows = [{n: rng.randrange(s) for n, s in zip(names, sizes, strict=True)} for _ in range(rng.randint(1, 5))]
        # per state: a usable transition table, a transition function whose argument is not available (it is ignored:
        # every value of that state is admitted), or no transition function at all (the state is not an axis of the mask)
        nxt, mstates, msizes = [], [], []
        for k in range(nst):
            u = rng.random()
            if u < 0.15:
                continue
            mstates.append(states[k])
            msizes.append(sizes[k])
            if u < 0.35:
                nxt.append({"args": ["-"], "tab": []})
                continue
            args = rng.sample(names, rng.randint(1, min(2, len(names))))
            shape = [sizes[names.index(a)] for a in args]

            def tab(d, sz=sizes[k]):
                return q(rng.randrange(sz)) if not d else [tab(d[1:]) for _ in range(d[0])]
            nxt.append({"args": args, "tab": tab(shape)})
        if not mstates:
            continue
        cases.append({"cid": len(cases), "fn": "fwdmask", "names": names, "states": mstates, "allsizes": sizes, "sizes": msizes, "rows": rows,
                      "nxt": nxt, "jit": i % 2 == 0, "missing_arg": True})
    done = units.run_units(cases, chunk=20)
    verdicts, st = tlc.validate_traces("TraceUnits", done)
    agree = sum(1 for c in done if verdicts[c["cid"]]["v"][0] == "ok")
    res.merge_cov(extras_forward_mask_cases=len(done), extras_forward_mask_agree=agree, states=st["distinct"], transitions=st["generated"])
    if agree != len(done):
        res.notes.append(f"create_forward_mask differs from StateSpace!ForwardMask on {len(done) - agree} of {len(done)} cases "
                         "(outside the listed properties; not a violation)")


def run(ctx: Ctx) -> Result:
    res = Result(ctx.prop)
    thorough = ctx.thorough
    # (MC) every mask: implementation-shaped tables satisfy the wording of the property
    mc = tlc.model_check("MC_StateSpace", cfg="MC_StateSpace_thorough.cfg" if thorough else "MC_StateSpace.cfg", workers=8)
    if not mc["ok"]:
        raise MachineryError("MC_StateSpace failed: the specification's two layers disagree\n" + mc["out"][-2000:])
    # (SC) the same masks, printed by TLC, replayed into create_state_choice_space
    out, _, _, rc = tlc.run_tlc("MC_StateSpace", cfg="MC_StateSpace_gen_thorough.cfg" if thorough else "MC_StateSpace_gen.cfg")
    gen_cases = tlc.parse_prints(out, "CASE")
    if rc != 0 or not gen_cases:
        raise MachineryError("MC_StateSpace (gen) produced no cases")
    rng = ctx.rng("flags")
    if not thorough:
        small = [c for c in gen_cases if len(c["mask"]) <= 6]
        big = [c for c in gen_cases if len(c["mask"]) > 6]
        rng.shuffle(big)
        gen_cases = small + big[:900]
    cases = []
    for c in gen_cases:
        mask = c["mask"]
        if isinstance(mask, dict):
            mask = [mask[str(i)] for i in range(1, len(mask) + 1)]
        cases.append({"cid": len(cases), "fn": "scs", "sshape": c["sshape"], "cshape": c["cshape"], "mask": mask,
                      "period": rng.randrange(2), "is_last": rng.random() < 0.5, "jit_filter": rng.random() < 0.15})
    # models: several filters at once, period-dependent masks, shuffled declaration orders
    n_mdl = ctx.n(60, 600)
    mrng = ctx.rng("models")
    for i in range(n_mdl):
        m = gen.rand_model(mrng, {"p_r": 1.0, "p_per_filter": 0.7, "p_state_filter": 0.5, "T": [2, 3], "sizes": {"r": mrng.choice([2, 3, 4])}})
        for t in range(m["T"]):
            cases.append({"cid": len(cases), "fn": "scs-mdl", "mdl": m, "period": t, "jit_filter": (i + t) % 4 == 0})
    run_unit_cases(ctx, res, cases, chunk=100, sample_keys=("fn", "sshape", "cshape", "mask", "mdl", "period"),
                   nontrivial=lambda c: c["fn"] == "scs-mdl" or (any(c["mask"]) and not all(c["mask"])))
    extras_forward_mask(ctx, res)
    res.merge_cov(states=mc["distinct"], transitions=mc["generated"], mc_states=mc["distinct"],
                  masks_enumerated=len(gen_cases), exhaustive=bool(thorough),
                  samples=[{k: v for k, v in c.items() if k in ("fn", "sshape", "cshape", "mask", "period", "is_last", "jit_filter")}
                           for c in cases[:3]])
    seen = res.coverage.pop("_seen")
    nt = res.coverage.pop("_nontriv")
    res.coverage["distinct_nontrivial"] = len(nt)
    res.coverage["distinct_cases"] = len(seen)
    res.coverage["rule"] = ("all masks over 8 (thorough: 11) shapes of restricted states x choices with <= 9 (12) cells, "
                            "enumerated by TLC (quick: all masks with <= 6 cells + 900 sampled); plus seeded models with "
                            "several and period-dependent filters; non-trivial = mask neither all-true nor all-false")
    res.assumptions += [
        "MC: TLC checks for every enumerated mask that the implementation-shaped tables of spec/StateSpace.tla satisfy DeclTablesOK",
        "TV: TLC evaluates DeclTablesOK on the tables returned by the real create_state_choice_space",
    ]
    return res
