"""C07 -- the parameter template is complete and parameters are routed by function name."""
from __future__ import annotations

from .. import gen
from ..core import Ctx, Result
from ..pipeline import finalize_cov, mk_spec, qinit, run_pipeline

PROFILES = [
    ("colliding parameter names", {"p_param_collision": 1.0, "p_w": 1.0, "p_c": 1.0, "p_a": 1.0, "p_nobind": 0.0, "p_param_only_aux": 0.5}),
    ("stochastic, permuted dependencies of different sizes", {"p_h": 1.0, "p_h_stoch": 1.0, "p_e": 0.5, "T": [3, 4],
                                                              "sizes": {"a": 3, "b": 3, "r": 3}, "p_z": 0.0, "max_cells": 900}),
    ("parameters in auxiliary chain", {"p_w": 1.0, "p_a": 1.0, "p_param_only_aux": 1.0, "p_period_aux": 0.5}),
    ("random", {}),
]


def nontrivial(spec):
    pr = spec["mdl"]["params"]
    names = {}
    for f, d in pr.items():
        if isinstance(d, dict) and f != "shocks":
            for k, v in d.items():
                names.setdefault(k, set()).add(tuple(v))
    return any(len(v) >= 2 for v in names.values()) or "shocks" in pr


def make_specs(ctx: Ctx, n):
    rng = ctx.rng("models")
    specs = []
    for i in range(n):
        label, prof = PROFILES[i % len(PROFILES)]
        m = gen.rand_model(rng, prof)
        plan = [{"op": "template"}, {"op": "solve", "jit": True}]
        groups = ["template", "solve"]
        if i % 2 == 0:
            init = qinit(gen.rand_initial_states(rng, m, 6))
            plan.append({"op": "simulate", "target": "simulate", "init": init, "seed": rng.randrange(10**6), "vsrc": "given"})
            groups += ["c02", "c03"]
        specs.append(mk_spec(i, m, groups, plan, label=label + ("; float64" if i % 5 == 4 else ""), x64=i % 5 == 4))
    # two stochastic states: one transition array per stochastic state in the template, each routed to its own weights
    r2 = ctx.rng("two-stochastic")
    for j in range(max(4, n // 18)):
        m = gen.rand_model(r2, {"p_h": 1.0, "p_h_stoch": 1.0, "p_e": 1.0, "T": [2, 3], "p_z": 0.0, "max_cells": 900})
        plan = [{"op": "template"}, {"op": "solve", "jit": True}]
        specs.append(mk_spec(len(specs), m, ["template", "solve"], plan, label="two stochastic states"))
    return specs


def run(ctx: Ctx) -> Result:
    res = Result(ctx.prop)
    specs = make_specs(ctx, ctx.n(72, 1000))
    run_pipeline(ctx, res, specs, nontrivial=nontrivial)
    finalize_cov(res, "seeded random models (4 strata: the same parameter name with different values in utility, "
                      "auxiliary function, constraint and transition; stochastic transitions whose dependencies are "
                      "listed in non-declaration order and have different sizes); non-trivial = a parameter name shared "
                      "with different values or a transition array")
    res.assumptions += [
        "template: key set, per-function parameter sets and transition-array shapes are compared with Mdl!Template",
        "routing is behavioural: solve values and simulated rows are validated against semantics in which every function "
        "reads only params[its own name] (Mdl!CallF) and beta is applied once per period (Bellman!Q)",
    ]
    return res
