"""C08 -- agents are simulated independently of each other."""
from __future__ import annotations

from .. import gen
from ..core import Ctx, Result
from ..pipeline import LARGE_N, embed_positions, finalize_cov, mk_spec, qinit, run_pipeline

DET = {"p_h_stoch": 0.0, "p_e": 0.0}
PROFILES = [
    ("deterministic, filtered-and-unfiltered-choice", {**DET, "p_r": 1.0, "p_b": 1.0}),
    ("deterministic, random", DET),
    ("deterministic, three-label restricted choice", {**DET, "p_r": 1.0, "sizes": {"a": 3, "r": 3}, "p_b": 0.5, "all_admitted": True}),
    ("deterministic, exact ties between the labels of the restricted choice", {**DET, "p_r": 1.0, "p_a_tie": 1.0, "p_state_only_filter": 0.0, "T": [1, 2]}),
    ("deterministic, period-varying-space", {**DET, "p_r": 1.0, "p_per_filter": 1.0, "T": [2, 3]}),
    ("deterministic, discrete-only", {**DET, "p_w": 0.0, "p_z": 0.0, "p_h": 1.0, "p_r": 0.7, "T": [2, 3]}),
    ("stochastic (period-0 decision and value)", {"p_h": 1.0, "p_h_stoch": 1.0, "T": [2, 3]}),
]


def transforms(rng, n, init=None):
    """(name, map) pairs: agent j of the transformed batch is agent map[j] of the reference batch.
    With restricted states in the model: additionally one agent of every distinct combination of restricted states alone
    (batches whose data state-choice space is complete / incomplete / of another size than the reference batch's)."""
    perm = list(range(n))
    rng.shuffle(perm)
    k = rng.randrange(1, n + 1)
    subset = sorted(rng.sample(range(n), k))
    rng.shuffle(subset)
    dup = [rng.randrange(n) for _ in range(n + 2)]
    out = [("permuted", perm), ("subset", subset), ("subset", [rng.randrange(n)]), ("duplicated", dup), ("key-order", list(range(n)))]
    if init and "r" in init:
        first = {}
        for j in range(n):
            first.setdefault((init["r"][j], init.get("q", [0] * n)[j]), j)
        singles = [[j] for j in sorted(first.values())][:4]
        out += [("subset", s1) for s1 in singles if ("subset", s1) not in out]
        if len(first) >= 2:      # all agents of one restricted state together (a batch with equally long segments)
            k0 = next(iter(first))
            out.append(("subset", [j for j in range(n) if (init["r"][j], init.get("q", [0] * n)[j]) == k0]))
    return out


def make_specs(ctx: Ctx, n):
    rng = ctx.rng("models")
    specs = []
    for i in range(n):
        label, prof = PROFILES[i % len(PROFILES)]
        m = gen.rand_model(rng, prof)
        stoch = m["meta"]["feat"]["stoch"]
        na = rng.choice([2, 3, 4, 4, 8] if ctx.tier == "quick" else [2, 3, 4, 8, 16, 64])
        init = gen.rand_initial_states(rng, m, na)
        seed = rng.randrange(10**6)
        target = "solve_and_simulate" if i % 2 else "simulate"
        plan = [{"op": "simulate", "target": target, "init": qinit(init), "seed": seed, "vsrc": "own"}]
        for what, mp in transforms(rng, na, init):
            init2 = {k: [v[j] for j in mp] for k, v in init.items()}
            step = {"op": "simulate", "target": target, "init": qinit(init2), "seed": seed, "vsrc": "own"}
            if what == "key-order":
                order = list(init2)
                order.reverse() if len(order) > 1 else None
                step["init_order"] = order
            plan.append(step)
            plan.append({"op": "rel-sim", "a": 1, "b": len(plan), "map": mp,
                         "scope": "period0" if stoch else "all", "what": what})
        specs.append(mk_spec(i, m, [], plan, label=label, reltol=None))
    # an agent inside a very large batch behaves as it does in a small one: 12 agents alone, and the same 12 spread over a batch
    # of tens of thousands that tiles them (more rows per period than 2^14 / 2^16)
    r2 = ctx.rng("large")
    for j in range(max(2, n // 25)):
        m = gen.rand_model(r2, {**DET, "p_r": 0.7, "p_w": 1.0, "T": [1, 2], "max_cells": 600})
        k = 12
        init = qinit(gen.rand_initial_states(r2, m, k))
        n_full = LARGE_N[(j + 1) % 2]
        seed = r2.randrange(10**6)
        target = "solve_and_simulate" if j % 2 else "simulate"
        plan = [{"op": "simulate", "target": target, "init": init, "seed": seed, "vsrc": "own"},
                {"op": "simulate", "target": target, "init": init, "seed": seed, "vsrc": "own",
                 "embed": {"n_full": n_full, "positions": embed_positions(r2, k, n_full)}},
                {"op": "rel-sim", "a": 1, "b": 2, "map": list(range(k)), "scope": "all", "what": "subset"}]
        specs.append(mk_spec(len(specs), m, [], plan, label=f"deterministic, 12 agents alone and inside a batch of {n_full}", reltol=None))
    return specs


def run(ctx: Ctx) -> Result:
    res = Result(ctx.prop)
    if ctx.thorough:
        # (MC) the implementation-shaped forward step (spec/Simulate.tla: data rows, first/last arg-max rules, selection
        # through the optimal row) against the declarative decision rule, for every model of spec/Family.tla and every
        # batch of two agents on nodes, inside cells and outside the grid range (invariant AgentIndependent)
        from ..unitlib import mc_or_die

        mc = mc_or_die("MC_Sim", "MC_Sim.cfg", workers=16)
        res.merge_cov(states=mc["distinct"], transitions=mc["generated"], mc_states=mc["distinct"])
    specs = make_specs(ctx, ctx.n(54, 700))
    run_pipeline(ctx, res, specs, nontrivial=lambda s: s["plan"][0]["init"] and len(next(iter(s["plan"][0]["init"].values()))) >= 2)
    finalize_cov(res, "seeded random models (4 deterministic strata + 1 stochastic); each case simulates a reference batch "
                      "and its permutation, a shuffled subset, a batch with duplicated agents and the batch with the keys of "
                      "initial_states reversed; non-trivial = at least 2 agents")
    res.assumptions += [
        "TLC (TracePipeline!RelSimFail) requires identical states, choices and periods of corresponding agents in every "
        "period (deterministic models) resp. identical period-0 choices (stochastic models); values within the rounding tolerance",
        "batches of up to 8 (thorough: 64) agents",
    ]
    return res
