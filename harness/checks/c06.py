"""C06 -- solve and simulate agree with each other."""
from __future__ import annotations

from .. import gen
from ..core import Ctx, Result
from ..pipeline import finalize_cov, mk_spec, qinit, run_pipeline

PROFILES = [
    ("random", {}),
    ("discrete-only", {"p_w": 0.0, "p_z": 0.0, "p_h": 1.0, "p_e": 0.5, "T": [2, 3, 4]}),
    ("period-varying-space", {"p_r": 1.0, "p_per_filter": 1.0, "T": [2, 3]}),
    ("stochastic", {"p_h": 1.0, "p_h_stoch": 1.0, "T": [2, 3]}),
    ("filtered-and-unfiltered-choice", {"p_r": 1.0, "p_b": 1.0}),
    ("several filters", {"p_r": 1.0, "p_choice_filter": 1.0, "p_state_filter": 0.5, "p_q": 0.4, "T": [2, 3]}),
    ("log-grid", {"p_log": 1.0, "p_w": 1.0, "p_z": 0.0}),
]


def make_specs(ctx: Ctx, n):
    rng = ctx.rng("models")
    specs = []
    for i in range(n):
        label, prof = PROFILES[i % len(PROFILES)]
        m = gen.rand_model(rng, prof)
        na = rng.choice([2, 4, 8])
        init = qinit(gen.rand_initial_states(rng, m, na, on_grid=True))
        seed = rng.randrange(10**6)
        plan = [
            {"op": "simulate", "target": "simulate", "init": init, "seed": seed, "vsrc": "given", "needV": True},
            {"op": "simulate", "target": "solve_and_simulate", "init": init, "seed": seed, "vsrc": "own", "needV": True},
            {"op": "rel-sim", "a": 1, "b": 2, "map": list(range(na)), "scope": "all", "what": "ss-equals-solve-then-simulate"},
        ]
        specs.append(mk_spec(i, m, ["c06"], plan, label=label))
    return specs


def run(ctx: Ctx) -> Result:
    res = Result(ctx.prop)
    specs = make_specs(ctx, ctx.n(60, 1200))
    run_pipeline(ctx, res, specs, nontrivial=lambda s: s["mdl"]["T"] >= 2)
    finalize_cov(res, "seeded random models (5 strata), on-grid initial states; each case simulates with the simulate "
                      "target (arrays from solve) and with solve_and_simulate (same seed); non-trivial = T >= 2")
    res.assumptions += [
        "value-vs-array: for every row whose state is a grid point the reported value must equal the entry of the "
        "observed solve array at the index given by the specification's layout (module StateSpace)",
        "the two frames must have identical states, choices and periods; values within the rounding tolerance",
    ]
    return res
