"""C06 -- solve and simulate agree with each other."""
from __future__ import annotations

from .. import gen
from ..core import Ctx, Result
from ..pipeline import finalize_cov, mk_spec, qinit, run_pipeline

PROFILES = [
    ("random", {}),
    ("discrete-only", {"p_w": 0.0, "p_z": 0.0, "p_h": 1.0, "p_e": 0.5, "T": [2, 3, 4]}),
    ("period-varying-space", {"p_r": 1.0, "p_per_filter": 1.0, "T": [2, 3]}),
    ("stochastic", {"p_h": 1.0, "p_h_stoch": 1.0, "T": [2, 3]}),
    ("stochastic, transition weights that do not sum to one (survival-weighted)", {"p_h": 1.0, "p_h_stoch": 1.0, "p_unnormalised": 1.0, "T": [2, 3]}),
    ("filtered-and-unfiltered-choice", {"p_r": 1.0, "p_b": 1.0}),
    ("several filters", {"p_r": 1.0, "p_choice_filter": 1.0, "p_state_filter": 0.5, "p_q": 0.4, "T": [2, 3]}),
    ("log-grid", {"p_log": 1.0, "p_w": 1.0, "p_z": 0.0}),
    # value arrays that hold -inf (states without feasible choice) which agents on the grid can reach
    ("lower-bound constraint: poor states have no feasible choice", {"p_lower_bound": 1.0, "p_w": 1.0, "p_c": 1.0, "p_nobind": 0.0, "T": [2, 3], "p_z": 0.0}),
    ("dead-end label reachable through the transition", {"p_w": 0.0, "p_z": 0.0, "p_h": 1.0, "p_h_stoch": 0.0, "p_dead_label": 1.0, "p_a": 1.0,
                                                         "sizes": {"h": 3, "a": 3, "b": 3}, "T": [2, 3]}),
]


def make_specs(ctx: Ctx, n):
    rng = ctx.rng("models")
    specs = []
    for i in range(n):
        label, prof = PROFILES[i % len(PROFILES)]
        m = gen.rand_model(rng, prof)
        na = rng.choice([2, 4, 8])
        init = qinit(gen.rand_initial_states(rng, m, na, on_grid=True))
        seed = rng.randrange(10**6)
        # every second model is run twice on the SAME function objects with other parameter values written in place into
        # the same params object (numpy leaves): the second run must agree with its own parameters
        twice = i % 2 == 0
        def plan_for(inplace):
            return [
                {"op": "simulate", "target": "simulate", "init": init, "seed": seed, "vsrc": "given", "needV": True, "inplace": inplace},
                {"op": "simulate", "target": "solve_and_simulate", "init": init, "seed": seed, "vsrc": "own", "needV": True, "inplace": inplace},
                {"op": "rel-sim", "a": 1, "b": 2, "map": list(range(na)), "scope": "all", "what": "ss-equals-solve-then-simulate"},
            ]
        if twice and len(specs) % 4 == 3:
            twice = False       # keep both runs of a pair in one driver chunk (4 consecutive cases)
        s1 = mk_spec(len(specs), m, ["c06"], plan_for(twice), label=label)
        if twice:
            s1["session_key"] = f"pair{i}"
        specs.append(s1)
        if twice:
            import copy

            from .c09 import param_variants

            m2 = copy.deepcopy(m)
            m2["params"] = param_variants(rng, m)["2"]
            s2 = mk_spec(len(specs), m2, ["c06"], plan_for(True), label=label + "; same functions, parameters updated in place")
            s2["session_key"] = f"pair{i}"
            specs.append(s2)
    # the period enters the model ONLY through an auxiliary function (inc(a, k, _period) feeding next_w), three or more periods:
    # no signature of utility, constraints or transitions mentions _period, yet every period is a different problem
    r2 = ctx.rng("period-through-auxiliary")
    for _ in range(max(4, n // 12)):
        m = gen.rand_model(r2, {"p_period_util": 0.0, "p_period_aux": 1.0, "p_period_next": 0.0, "p_per_filter": 0.0, "p_w": 1.0, "p_a": 1.0,
                                "p_h_stoch": 0.0, "p_e": 0.0, "p_reduction_aux": 0.0, "T": [3, 4], "max_cells": 800})
        na = r2.choice([2, 4])
        init = qinit(gen.rand_initial_states(r2, m, na, on_grid=True))
        seed = r2.randrange(10**6)
        plan = [{"op": "simulate", "target": "simulate", "init": init, "seed": seed, "vsrc": "given", "needV": True},
                {"op": "simulate", "target": "solve_and_simulate", "init": init, "seed": seed, "vsrc": "own", "needV": True},
                {"op": "rel-sim", "a": 1, "b": 2, "map": list(range(na)), "scope": "all", "what": "ss-equals-solve-then-simulate"}]
        # (the decision clauses of C02 are judged too: off-grid rows of the middle periods carry the evidence as well)
        specs.append(mk_spec(len(specs), m, ["c06", "c02"], plan, label="period enters only through an auxiliary function, T >= 3"))
    return specs


def run(ctx: Ctx) -> Result:
    res = Result(ctx.prop)
    specs = make_specs(ctx, ctx.n(54, 900))
    run_pipeline(ctx, res, specs, nontrivial=lambda s: s["mdl"]["T"] >= 2)
    finalize_cov(res, "seeded random models (5 strata), on-grid initial states; each case simulates with the simulate "
                      "target (arrays from solve) and with solve_and_simulate (same seed); non-trivial = T >= 2")
    res.assumptions += [
        "value-vs-array: for every row whose state is a grid point the reported value must equal the entry of the "
        "observed solve array at the index given by the specification's layout (module StateSpace)",
        "the two frames must have identical states, choices and periods; values within the rounding tolerance",
    ]
    return res
