"""C05 -- value arrays follow the documented axis layout."""
from __future__ import annotations

import copy
import itertools

from .. import gen
from ..core import Ctx, Result
from ..pipeline import finalize_cov, mk_spec, run_pipeline

SIZES = {"h": 2, "r": 4, "e": 3, "w": 5, "a": 2, "b": 3}
PROFILES = [
    ("restricted + unrestricted + continuous", {"p_r": 1.0, "p_h": 1.0, "p_w": 1.0, "p_z": 0.0, "p_e": 0.0, "sizes": SIZES, "max_cells": 2500}),
    ("period-varying leading axis", {"p_r": 1.0, "p_per_filter": 1.0, "p_h": 0.7, "T": [2, 3], "sizes": SIZES, "max_cells": 2500}),
    ("several filters, longer horizon", {"p_r": 1.0, "p_per_filter": 1.0, "p_state_filter": 1.0, "p_q": 0.5, "T": [3, 4], "sizes": {**SIZES, "r": 3, "w": 3},
                                         "p_z": 0.0, "max_cells": 1200}),
    ("two continuous states", {"p_w": 1.0, "p_z": 1.0, "p_h": 1.0, "p_r": 0.0, "sizes": SIZES}),
    ("three discrete states", {"p_r": 1.0, "p_h": 1.0, "p_e": 1.0, "p_w": 0.0, "p_z": 0.0, "sizes": SIZES, "max_cells": 2500}),
    ("random", {}),
    ("a deterministic and a stochastic unrestricted discrete state", {"p_h": 1.0, "p_h_stoch": 0.0, "p_e": 1.0, "p_r": 0.0, "p_z": 0.0, "sizes": SIZES,
                                                                      "T": [2, 3], "max_cells": 2500}),
    ("many variables (17-20), most with a single label", {"pad_states": 14, "p_w": 1.0, "p_h": 1.0, "p_r": 0.5, "p_z": 0.0, "p_e": 0.0, "p_d": 0.0,
                                                          "T": [1, 2], "max_cells": 2500}),
]


def permutations_of(rng, m, k):
    """k distinct declaration orders of states, choices and functions of model m (incl. the original)."""
    states = [v for v in m["vars"] if v["role"] == "state"]
    choices = [v for v in m["vars"] if v["role"] == "choice"]
    if len(states) > 6 or len(choices) > 6:      # too many orders to enumerate: k random ones
        def rp(n):
            p = list(range(n))
            rng.shuffle(p)
            return tuple(p)
        allp = [(tuple(range(len(states))), tuple(range(len(choices))))] + [(rp(len(states)), rp(len(choices))) for _ in range(max(k, 1) * 2)]
        allp = list(dict.fromkeys(allp))
    else:
        allp = list(itertools.product(itertools.permutations(range(len(states))), itertools.permutations(range(len(choices)))))
        rng.shuffle(allp)
    out = []
    for ps, pc in allp[:k]:
        mm = copy.deepcopy(m)
        sv = [states[i] for i in ps]
        cv = [choices[i] for i in pc]
        # interleave states and choices randomly: only the relative order within each role matters
        merged = []
        si = ci = 0
        while si < len(sv) or ci < len(cv):
            if ci >= len(cv) or (si < len(sv) and rng.random() < 0.5):
                merged.append(sv[si])
                si += 1
            else:
                merged.append(cv[ci])
                ci += 1
        mm["vars"] = merged
        rng.shuffle(mm["funcs"])
        out.append((mm, f"states {list(ps)} choices {list(pc)}"))
    return out, len(allp)


def nontrivial(spec):
    sizes = [v["n"] for v in spec["mdl"]["vars"] if v["role"] == "state"]
    return len(sizes) >= 2 and len(set(sizes)) >= 2


def subresolution(rng, m):
    """The continuous state w on a grid whose spacing is below the resolution of float32 at the grid's location: after rounding
    neighbouring nodes coincide.  The value arrays must still have one entry per declared grid point (judged on the layout only:
    the exact semantics says nothing about values computed from coinciding nodes)."""
    from fractions import Fraction as F

    from ..mdl import q

    mm = copy.deepcopy(m)
    w = next(v for v in mm["vars"] if v["name"] == "w")
    n = rng.choice([5, 6, 9, 11])
    kind = rng.choice(["high", "high", "fine"])
    if kind == "high":       # float32 has a spacing of 2 at 2^24
        w.update(n=n, start=q(1 << 24), stop=q((1 << 24) + n - 1))
    else:                    # steps of 2^-26 next to 1 (float32: 2^-23)
        w.update(n=n, start=q(1), stop=q(1 + F(n - 1, 1 << 26)))
    mm["meta"]["feat"]["subresolution_grid"] = True
    return mm


def make_specs(ctx: Ctx, n_base, k):
    rng = ctx.rng("models")
    specs = []
    for i in range(n_base):
        label, prof = PROFILES[i % len(PROFILES)]
        m = gen.rand_model(rng, prof)
        perms, total = permutations_of(rng, m, k)
        for mm, what in perms:
            specs.append(mk_spec(len(specs), mm, ["solve"], [{"op": "solve", "jit": True}],
                                 label=f"{label}; base {i}; {what} of {total} orders"))
    # layout-only stratum: grids finer than the working precision
    for j in range(max(3, n_base // 6)):
        m = gen.rand_model(rng, {"p_w": 1.0, "p_log": 0.0, "p_h": 0.6, "p_r": 0.5, "p_z": 0.3, "T": [1, 2], "p_near_tie": 0.0})
        specs.append(mk_spec(len(specs), subresolution(rng, m), ["shape"], [{"op": "solve", "jit": bool(j % 2)}],
                             label="continuous grid finer than float32 resolution (layout only)"))
    return specs


def run(ctx: Ctx) -> Result:
    res = Result(ctx.prop)
    specs = make_specs(ctx, ctx.n(25, 150), ctx.n(4, 24))
    run_pipeline(ctx, res, specs, nontrivial=nontrivial)
    finalize_cov(res, "base models with pairwise different grid sizes (5 strata); for each base several (thorough: all, "
                      "up to 24) declaration orders of states x choices, functions shuffled; non-trivial = at least two "
                      "state axes of different length")
    res.assumptions += [
        "the observed list length, every array shape and every entry are compared with StateSpace!Shape / Flat applied "
        "to the exact solution: an entry is only accepted at the position the layout contract assigns to its state",
        "utilities contain a random table over all discrete variables and distinct coefficients on continuous states, so "
        "any transposition of two axes changes some entry",
    ]
    return res
