"""C13 -- the simulation result is a complete, correctly indexed panel."""
from __future__ import annotations

from .. import gen
from ..core import Ctx, Result
from ..pipeline import LARGE_N, embed_positions, finalize_cov, mk_spec, qinit, run_pipeline

PROFILES = [
    ("random", {}),
    ("one period", {"T": [1]}),
    ("period-dependent functions", {"p_period_util": 1.0, "p_period_aux": 1.0, "p_r": 1.0, "p_per_filter": 1.0, "T": [2, 3]}),
    ("parameter collisions", {"p_param_collision": 1.0, "p_w": 1.0, "p_c": 1.0, "p_nobind": 0.0}),
    ("filtered-and-unfiltered-choice", {"p_r": 1.0, "p_b": 1.0}),
    ("reductions inside model functions", {"p_a": 1.0, "p_reduction_aux": 1.0, "T": [2, 3]}),
]


def target_pool(m):
    """Auxiliary functions, utility, constraints, deterministic transitions -- all of them take at
    least one model variable (a target of parameters only is known finding D7)."""
    vn = {v["name"] for v in m["vars"]} | {"_period"}
    fn = {f["name"] for f in m["funcs"]}

    def uses_var(f, seen=()):
        for a in f["args"]:
            if a in vn:
                return True
            if a in fn and a not in seen:
                g = next(x for x in m["funcs"] if x["name"] == a)
                if uses_var(g, (*seen, a)):
                    return True
        return False

    return [f["name"] for f in m["funcs"] if f["kind"] in ("aux", "utility", "constraint", "next") and uses_var(f)]


def make_specs(ctx: Ctx, n):
    rng = ctx.rng("models")
    specs = []
    for i in range(n):
        label, prof = PROFILES[i % len(PROFILES)]
        m = gen.rand_model(rng, prof)
        na = rng.choice([1, 2, 5])
        init = qinit(gen.rand_initial_states(rng, m, na))
        pool = target_pool(m)
        k = rng.choice([0, 1, 2, len(pool)])
        targets = rng.sample(pool, min(k, len(pool)))
        target = "solve_and_simulate" if i % 2 else "simulate"
        plan = [{"op": "simulate", "target": target, "init": init, "seed": rng.randrange(10**6), "vsrc": "own", "targets": targets}]
        # the content of the value/choice columns is C02's subject; every second case evaluates those clauses too, so that
        # a frame whose columns are complete but filled from the wrong source is seen here as well
        specs.append(mk_spec(len(specs), m, ["c13", "c02"] if i % 2 == 0 else ["c13"], plan, label=label))
        if i % 4 == 0 and len(specs) % 4 != 0:
            # the twin runs right after its sibling in the same driver process (chunks of 4 consecutive cases)
            specs.append(mk_spec(len(specs), gen.twin(rng, m), ["c13"], plan, label=label + "; twin (same names, other bodies)"))
    # large panels (tens of thousands of rows, additional targets): 12 agents spread over the panel are judged row by row
    r2 = ctx.rng("large")
    for j in range(max(2, n // 40)):
        m = gen.rand_model(r2, {"p_w": 1.0, "p_c": 1.0, "T": [2, 3], "p_r": 0.5, "p_e": 0.0, "max_cells": 600})
        k = 12
        init = qinit(gen.rand_initial_states(r2, m, k))
        pool = target_pool(m)
        n_full = LARGE_N[j % 2]
        plan = [{"op": "simulate", "target": "solve_and_simulate" if j % 2 else "simulate", "init": init, "seed": r2.randrange(10**6), "vsrc": "own",
                 "targets": r2.sample(pool, min(len(pool), 3)), "embed": {"n_full": n_full, "positions": embed_positions(r2, k, n_full)}}]
        specs.append(mk_spec(len(specs), m, ["c13", "c02", "c03"], plan, label=f"large panel ({n_full} agents), 12 agents judged"))
    return specs


def known_finding_d7(ctx, res):
    """D7 (known_findings.json): an additional target that depends on parameters only.  The stored shape is
    re-run; while it still fails the same way it is reported as KNOWN-FINDING, never as a violation."""
    from .. import drive, tlc
    from ..core import add_violation, load_known

    ent = next((k for k in load_known(ctx.prop) if k["id"] == "D7" and k["status"] == "known"), None)
    if ent is None:
        return
    rng = ctx.rng("d7")
    m = gen.rand_model(rng, {"p_param_only_aux": 1.0, "p_w": 1.0, "p_c": 1.0, "T": [2], "max_cells": 300})
    init = qinit(gen.rand_initial_states(rng, m, 2))
    spec = mk_spec(10**6, m, ["c13"], [{"op": "simulate", "target": "solve_and_simulate", "init": init, "seed": 1, "vsrc": "own",
                                        "targets": ["bonus"]}], label="D7 reproducer")
    case = drive.run_cases([spec], nproc=1)[0]
    v = tlc.validate_traces("TracePipeline", [case], nproc=1)[0][case["cid"]]
    if v["v"][0] == "FAIL":
        err = next((e for e in case["events"] if e["e"] == "error"), {})
        if v["v"][1] == ent["match"]["clause"] and err.get("cls") == ent["match"]["cls"] and ent["match"]["msg"] in err.get("msg", ""):
            res.known.append(f"D7: additional target 'bonus' depends on parameters only: {err.get('cls')}: {err.get('msg', '')[:80]}")
        else:
            add_violation(ctx, res, v["v"][1], {"kind": "pipeline", "property": ctx.prop, "spec": spec, "case": case, "verdict": v},
                          f"D7 reproducer fails differently: {v['v'][2][:200]}")


def run(ctx: Ctx) -> Result:
    res = Result(ctx.prop)
    if ctx.thorough:
        # (MC) the whole forward loop as one state machine (spec/MC_Panel.tla: Decide, SplitKeys, Draw, Advance, Frame composed
        # from Simulate, Keys and Pipeline): for every model of spec/Family.tla with and without a stochastic state, every batch
        # of two agents and every stochastic branch, the frame is the complete period-major panel of admissible steps
        # (PanelComplete, StepsAdmissible, Period0IsInitial; termination under weak fairness); the agent-major variant of Frame
        # must be refuted
        from ..unitlib import mc_must_fail, mc_or_die

        mc = mc_or_die("MC_Panel", "MC_Panel.cfg", workers=16)
        res.merge_cov(states=mc["distinct"], transitions=mc["generated"], mc_states=mc["distinct"])
        mc_must_fail("MC_Panel", "MC_Panel_neg_frame.cfg", "PanelComplete", workers=8)
        res.notes.append("MC_Panel.cfg: no error; MC_Panel_neg_frame.cfg (agent-major concatenation) refuted by PanelComplete")
    specs = make_specs(ctx, ctx.n(80, 1200))
    run_pipeline(ctx, res, specs, nontrivial=lambda s: bool(s["plan"][0].get("targets")))
    known_finding_d7(ctx, res)
    finalize_cov(res, "seeded random models (5 strata), 1/2/5 agents, T in 1..3, random subsets of the legal additional "
                      "targets (auxiliary functions, utility, constraints, deterministic transitions); non-trivial = at "
                      "least one additional target")
    res.assumptions += [
        "row count, (period, initial_state_id) index in period-major order, column set and _period are compared with "
        "Pipeline!PanelIndex / PanelColumns; each target column with the specification's evaluation of that model "
        "function at the row",
    ]
    return res
