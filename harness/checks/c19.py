"""C19 -- vectorisation dispatchers equal nested loops over named arguments."""
from __future__ import annotations

from ..core import Ctx, Result
from ..unitlib import finalize_units, mc_or_die, run_unit_cases, seqify, tlc_cases

LEAVES = [["id"], ["id", "double"], ["id", "inc", "double"], ["vec"], ["id", "vec"]]     # vec: an array-valued leaf of length 3


def map_cases(ctx, g, rng):
    """The real calls derived from one enumerated (signature, product, joint) triple."""
    sig, product, joint = g["sig"], g["product"], g["joint"]
    names = [p["name"] for p in sig]
    arrays, scalars = {}, {}
    for k, n in enumerate(product):
        arrays[n] = [(i + k) % 9 + 1 for i in range(2 + k)]            # lengths 2, 3, 4, ... make the axis order visible
    lj = rng.choice([2, 3, 4])
    for k, n in enumerate(joint):
        arrays[n] = [(2 * i + k) % 9 + 1 for i in range(lj)]
    for i, n in enumerate(names):
        scalars[n] = (7 + i) % 9 + 1
    base = {"fn": "map", "sig": sig, "product": product, "joint": joint, "arrays": arrays, "scalars": scalars,
            "leaves": rng.choice(LEAVES), "callmode": "ok", "dense_first": False, "jit": rng.random() < 0.15}
    order = names[:]
    rng.shuffle(order)
    base["kworder"] = order
    out = []
    if not joint:
        out.append(dict(base, variant="productmap", kind="productmap"))
    if not product and joint:
        out.append(dict(base, variant="vmap_1d", kind="vmap_1d", callable_with=rng.choice(["only_kwargs", "only_args"])))
    if product or joint:
        out.append(dict(base, variant="spacemap", kind="spacemap", dense_first=rng.random() < 0.5))
    # invalid use: must be rejected
    r = rng.random()
    if r < 0.15 and product:
        out.append(dict(base, variant="productmap" if not joint else "spacemap", kind="duplicate name",
                        product=[*product, product[0]]))
    elif r < 0.3 and product and joint:
        out.append(dict(base, variant="spacemap", kind="dense/sparse overlap", joint=[*joint, product[0]],
                        arrays={**arrays, product[0]: arrays[joint[0]]}))
    elif r < 0.6:
        v = "productmap" if not joint else "spacemap"
        out.append(dict(base, variant=v, kind="invalid call", callmode=rng.choice(["missing", "extra", "positional"])))
    return out


def run(ctx: Ctx) -> Result:
    res = Result(ctx.prop)
    sfx = "_thorough" if ctx.thorough else ""
    mc = mc_or_die("MC_Dispatch", f"MC_Dispatch{sfx}.cfg")
    gen_cases = [seqify(g) for g in tlc_cases("MC_Dispatch", f"MC_Dispatch_gen{sfx}.cfg")]
    rng = ctx.rng("calls")
    cases = []
    for g in gen_cases:
        if g["kind"] == "map":
            cases += map_cases(ctx, g, rng)
        else:
            for w in ("allow_only_kwargs", "allow_args"):
                cases.append({"fn": "call", "kind": w, "wrapper": w, "sig": g["sig"], "call": g["call"]})
                # the same call on a function whose parameters all declare a default: a missing argument is still rejected,
                # a supplied one is still bound to the parameter of its name
                cases.append({"fn": "call", "kind": w + " (parameters with defaults)", "wrapper": w, "sig": g["sig"], "call": g["call"],
                              "defaults": True})
            # the argument-normalising helpers are specified for complete, non-overlapping calls only
            names = [p["name"] for p in g["sig"]]
            kw = g["call"]["kw"]
            if set(kw) <= set(names) and len(kw) + g["call"]["nargs"] == len(names) and not set(kw) & set(names[:g["call"]["nargs"]]):
                for w in ("all_as_kwargs", "all_as_args", "convert_kwargs_to_args"):
                    cases.append({"fn": "call", "kind": w, "wrapper": w, "sig": g["sig"], "call": g["call"]})
    for i, c in enumerate(cases):
        c["cid"] = i
    run_unit_cases(ctx, res, cases, chunk=400, sample_keys=("fn", "variant", "wrapper", "sig", "product", "joint", "call", "callmode", "leaves", "dense_first"),
                   nontrivial=lambda c: (c["fn"] == "map" and len(c["product"]) + len(c["joint"]) >= 2) or (c["fn"] == "call" and len(c["sig"]) >= 2))
    res.merge_cov(states=mc["distinct"], transitions=mc["generated"], mc_states=mc["distinct"], enumerated=len(gen_cases),
                  exhaustive=True,
                  samples=[{k: v for k, v in c.items() if k in ("fn", "variant", "sig", "product", "joint", "dense_first", "call", "wrapper", "leaves")}
                           for c in (cases[len(cases) // 3], cases[-1])])
    finalize_units(res, "TLC enumerates every signature with <= 3 (thorough: 4) parameters of every legal kind pattern x every "
                        "ordered subset of mapped names split into product and joint part, and every call shape (0..n+1 positional "
                        "values x ordered keyword subsets incl. an unexpected name); each becomes real productmap / vmap_1d / "
                        "spacemap / allow_only_kwargs / allow_args calls (scalar, tuple and dict outputs, random keyword order, "
                        "invalid uses); non-trivial = at least two mapped names resp. two parameters")
    res.assumptions += [
        "test function f = sum 10^position * x (injective on digits): TLC states every entry of the expected array (Dispatch!SpaceEntry)",
        "a call the specification rejects must raise ValueError or TypeError; any other outcome is a violation",
    ]
    return res
