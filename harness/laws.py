"""Pairs of related models for C10 (equivalent specifications) and C11 (laws of dynamic programming):
model transformations (pure syntax, on the MDL document) and the driver that solves both models."""
from __future__ import annotations

import copy
from fractions import Fraction as F

from . import mdl as MDL
from .drive import Session, _flat, _shape_list
from .mdl import add, const, mkfunc, mul, q, var

RENAME = {"w": "wealth", "z": "zeta", "h": "health", "e": "educ", "r": "region", "a": "act", "b": "bonus_choice", "c": "cons",
          "d": "dep", "k": "kappa", "m": "mu", "kb": "kbase", "inc": "income", "net": "netinc", "kn2": "knet", "bonus": "extra", "tot": "total", "kt": "ktot",
          "m_filter": "reg_filter", "s_filter": "adm_filter", "c_filter": "act_filter", "bc_constraint": "budget_constraint",
          "d_constraint": "limit_constraint", "pos_constraint": "floor_constraint", "alive_constraint": "living_constraint", "lb_constraint": "floor2_constraint", "kmin": "kfloor", "utility": "utility"}


def identity_rename(m):
    return {v["name"]: v["name"] for v in m["vars"] if v["role"] == "state"}


def all_pairs(T):
    return [[t, t] for t in range(T)]


def _rn(name):
    if name.startswith("next_"):
        return "next_" + RENAME.get(name[5:], name[5:])
    return RENAME.get(name, name)


def _rename_expr(e):
    if e[0] == "var":
        return ["var", _rn(e[1])]
    if e[0] == "const":
        return e
    if e[0] == "tab":
        return ["tab", [_rn(x) for x in e[1]], e[2]]
    if e[0] == "ssum":
        return ["ssum", *[_rename_expr(x) for x in e[1:]]]
    return [e[0], *[_rename_expr(x) for x in e[1:]]]


def renamed(m):
    """Consistent renaming of variables, functions and parameters that keeps the naming conventions."""
    mm = copy.deepcopy(m)
    for v in mm["vars"]:
        v["name"] = _rn(v["name"])
    for f in mm["funcs"]:
        f["name"] = _rn(f["name"])
        f["args"] = [_rn(a) for a in f["args"]]
        f["expr"] = _rename_expr(f["expr"])
        if f["state"]:
            f["state"] = _rn(f["state"])
        if f.get("alias_of"):
            f["alias_of"] = _rn(f["alias_of"])
        if f.get("kwonly"):
            f["kwonly"] = [_rn(a) for a in f["kwonly"]]
        if f.get("defaults"):
            f["defaults"] = {_rn(a): v for a, v in f["defaults"].items()}
    p = {}
    for k, val in mm["params"].items():
        if k == "shocks":
            p[k] = {_rn(s): a for s, a in val.items()}
        elif isinstance(val, dict):
            p[_rn(k)] = {_rn(pk): pv for pk, pv in val.items()}
        else:
            p[k] = val
    mm["params"] = p
    rename = {v["name"]: _rn(v["name"]) for v in m["vars"] if v["role"] == "state"}
    return mm, rename


def add_true_constraint(rng, m):
    mm = copy.deepcopy(m)
    x = rng.choice(mm["vars"])["name"]
    mm["funcs"].insert(rng.randrange(len(mm["funcs"]) + 1),
                       mkfunc("tt_constraint", "constraint", [x], ["le", mul(const(0), var(x)), const(1)]))
    mm["params"]["tt_constraint"] = {}
    return mm


def add_true_filter(rng, m):
    """An always-true filter over a discrete state (and a discrete choice): they become restricted variables."""
    ds = [v for v in m["vars"] if v["role"] == "state" and v["kind"] == "disc"]
    dc = [v for v in m["vars"] if v["role"] == "choice" and v["kind"] == "disc"]
    if not ds:
        return None
    mm = copy.deepcopy(m)
    args = [rng.choice(ds)["name"]] + ([rng.choice(dc)["name"]] if dc and rng.random() < 0.5 else [])
    e = ["le", const(0), var(args[0])]
    mm["funcs"].insert(rng.randrange(len(mm["funcs"]) + 1), mkfunc("tt_filter", "filter", args, e))
    mm["params"]["tt_filter"] = {}
    return mm


def filter_to_constraint(m):
    """The model's filters written as constraints (same expressions)."""
    if not any(f["kind"] == "filter" for f in m["funcs"]):
        return None
    mm = copy.deepcopy(m)
    for f in mm["funcs"]:
        if f["kind"] == "filter":
            old = f["name"]
            f["kind"] = "constraint"
            f["name"] = old[: -len("_filter")] + "_constraint"
            mm["params"][f["name"]] = mm["params"].pop(old, {})
    return mm


def affine(rng, m):
    a = rng.choice([F(1, 2), F(2), F(3), F(1, 4)])
    b = rng.choice([F(-3), F(1, 2), F(5), F(0)])
    mm = copy.deepcopy(m)
    for f in mm["funcs"]:
        if f["kind"] == "utility":
            f["expr"] = add(mul(const(a), f["expr"]), const(b))
    return mm, a, b


def _slice_period_axis(arr, deps, T2):
    def rec(x, depth):
        if depth == len(deps):
            return x
        if deps[depth] == "_period":
            return [rec(y, depth + 1) for y in x[:T2]]
        return [rec(y, depth + 1) for y in x]
    return rec(arr, 0)


def _extend_period_axis(arr, deps, T2):
    def rec(x, depth):
        if depth == len(deps):
            return x
        if deps[depth] == "_period":
            xs = [rec(y, depth + 1) for y in x]
            return (xs + [xs[-1]] * T2)[:T2]
        return [rec(y, depth + 1) for y in x]
    return rec(arr, 0)


def with_horizon(m, T2):
    """The same model with n_periods = T2 (transition arrays indexed by the period are cut / extended)."""
    mm = copy.deepcopy(m)
    mm["T"] = T2
    for f in mm["funcs"]:
        if f["kind"] == "stoch":
            st = f["state"]
            arr = mm["params"]["shocks"][st]
            mm["params"]["shocks"][st] = _slice_period_axis(arr, f["args"], T2) if T2 <= m["T"] else _extend_period_axis(arr, f["args"], T2)
    return mm


def with_beta(m, beta):
    mm = copy.deepcopy(m)
    mm["params"]["beta"] = q(beta)
    return mm


def degenerate_to_deterministic(m):
    """Stochastic states with one-hot rows -> the corresponding deterministic transition (a table of labels)."""
    mm = copy.deepcopy(m)
    for f in mm["funcs"]:
        if f["kind"] == "stoch":
            st = f["state"]
            arr = mm["params"]["shocks"].pop(st)

            def rec(x, depth, nd=len(f["args"])):
                if depth == nd:
                    ones = [i for i, p in enumerate(x) if p == [1, 1]]
                    assert len(ones) == 1
                    return q(ones[0])
                return [rec(y, depth + 1) for y in x]
            f["kind"] = "next"
            f["state"] = ""
            f["expr"] = ["tab", list(f["args"]), rec(arr, 0)] if f["args"] else const(rec(arr, 0)[0])
    if "shocks" in mm["params"] and not mm["params"]["shocks"]:
        del mm["params"]["shocks"]
    return mm


def deterministic_to_degenerate(m, names=("next_r", "next_q")):
    """The inverse rewriting for table-valued deterministic transitions of discrete states (the filter-restricted states r, q of
    the generator): the transition becomes a stochastic one whose rows are one-hot at the table's label.  Every other label --
    filter-excluded states included -- is a node of probability zero."""
    import itertools

    mm = copy.deepcopy(m)
    size = {v["name"]: v["n"] for v in mm["vars"]}
    done = False
    for f in mm["funcs"]:
        if f["kind"] != "next" or f["name"] not in names or f["expr"][0] != "tab" or mm["params"].get(f["name"]):
            continue
        st = f["name"][5:]
        tvars, tab = f["expr"][1], f["expr"][2]
        if set(tvars) != set(f["args"]):
            continue
        dims = [mm["T"] if a == "_period" else size[a] for a in f["args"]]

        def label(idx, tvars=tvars, tab=tab, args=f["args"]):
            x = tab
            for tv in tvars:
                x = x[idx[args.index(tv)]]
            return x[0] // x[1]

        def rec(prefix, depth, dims=dims, n=size[st], label=label):
            if depth == len(dims):
                lab = label(prefix)
                return [q(1) if k == lab else q(0) for k in range(n)]
            return [rec([*prefix, i], depth + 1) for i in range(dims[depth])]
        mm["params"].setdefault("shocks", {})[st] = rec([], 0)
        f["kind"] = "stoch"
        f["state"] = st
        f["expr"] = const(0)
        done = True
    return mm if done else None


# ----------------------------------------------------------------------------- driver
def _solve(m, jit, coarse=False):
    import numpy as np

    sess = Session(m)
    V = sess.get("solve", jit)(MDL.params(m))
    if coarse:      # large models: multiples of 1/1024 keep TLC's 32-bit arithmetic small (the tolerance is 2^-8)
        flat = [[MDL.enc(x, quant_den=1024, exact_den=1024) for x in np.asarray(v, dtype=np.float64).ravel()] for v in V]
    else:
        flat = [_flat(v) for v in V]
    return {"n": len(V), "shapes": [_shape_list(v) for v in V], "V": flat}


def run_pair(spec):
    out = {k: v for k, v in spec.items() if k not in ("m1", "m2")}
    strip = lambda m: {k: v for k, v in m.items() if k != "meta"}  # noqa: E731
    try:
        out["o1"] = _solve(spec["m1"], spec.get("jit", True), coarse=bool(spec.get("flat")))
        out["o2"] = _solve(spec["m2"], spec.get("jit", True), coarse=bool(spec.get("flat")))
        out["error"] = False
    except Exception as e:  # noqa: BLE001
        out.update(error=True, cls=type(e).__name__, msg=str(e)[:300], o1={"n": 0, "shapes": [], "V": []}, o2={"n": 0, "shapes": [], "V": []})
    if spec.get("flat"):
        out["m1"] = {"T": spec["m1"]["T"]}
        out["m2"] = {"T": spec["m2"]["T"]}
        out["t1"] = spec["m1"]["T"]
        out["ncells"] = len(out["o1"]["V"][0]) if out["o1"]["V"] else 0
    else:
        out["m1"], out["m2"] = strip(spec["m1"]), strip(spec["m2"])
        out["t1"] = spec["m1"]["T"]
        out["ncells"] = 0
    return out


def _chunk(specs):
    from .drive import _worker_init

    _worker_init()
    return [run_pair(s) for s in specs]


def run_pairs(specs, nproc=16, chunk=3):
    from concurrent.futures import ProcessPoolExecutor
    from multiprocessing import get_context

    if not specs:
        return []
    chunks = [specs[i:i + chunk] for i in range(0, len(specs), chunk)]
    from .pool import robust_map

    def failed(ch, why):
        res = []
        for s in ch:
            o = {k: v for k, v in s.items() if k not in ("m1", "m2")}
            o.update(error=True, cls="DriverProcessFailure", msg=why, o1={"n": 0, "shapes": [], "V": []}, o2={"n": 0, "shapes": [], "V": []},
                     m1={"T": s["m1"]["T"]}, m2={"T": s["m2"]["T"]}, t1=s["m1"]["T"], ncells=0)
            res.append(o)
        return res

    out = []
    for r in robust_map(_chunk, chunks, nproc, failed):
        out.extend(r)
    return out
