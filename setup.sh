#!/bin/bash
# Offline set-up: nothing is built; the specification is parsed and the harness imported.
cd "$(dirname "$0")" || exit 2
set -e
set -o pipefail
for f in spec/*.tla; do
  m=$(basename "$f" .tla)
  (cd spec && tla-sany "$m.tla" > /tmp/sany.$$.log 2>&1) || { cat /tmp/sany.$$.log; rm -f /tmp/sany.$$.log; echo "SANY failed on $m"; exit 1; }
  if grep -q -E "^\*\*\* Errors|Fatal errors|Could not parse" /tmp/sany.$$.log; then cat /tmp/sany.$$.log; rm -f /tmp/sany.$$.log; echo "SANY failed on $m"; exit 1; fi
done
rm -f /tmp/sany.$$.log
/venv/bin/python -c "import sys; sys.path.insert(0, '.'); import harness.cli, harness.gen, harness.drive, harness.tlc, harness.pipeline; import lcm.entry_point"
mkdir -p out evidence
# binding self-test: stored good traces are accepted, single corruptions rejected with the expected clause,
# and the model checker finds the repaired defect D2 when it is put back into the specification
/venv/bin/python tools/selftest.py | tail -25
echo "setup ok"
